"""D2: state_indexers not shifted by one period (entry_point.get_lcm_function).

Model: one discrete state s in {0,1,2} that is filter-restricted; the filter excludes
s==0 in period 1 only.  Transitions never enter the excluded state (next_s = max(s,1)).
V_0 must rank next_s inside V_1 with the indexer OF PERIOD 1; the unfixed code uses the
indexer of period 0 (identity) and reads the wrong row of V_1.
Run:  PYTHONPATH=<repo>/src /venv/bin/python D2_repro.py   (exit 0 = correct values)
"""
import sys
from dataclasses import dataclass
import jax.numpy as jnp
import numpy as np
from lcm import DiscreteGrid, Model
from lcm.entry_point import get_lcm_function


@dataclass
class S:
    a: int = 0
    b: int = 1
    c: int = 2


@dataclass
class D:
    no: int = 0
    yes: int = 1


def utility(s, d):
    return 1.0 * s + 0.1 * d


def next_s(s, d):
    return jnp.maximum(s, 1)


def s_filter(s, d, _period):
    return jnp.logical_or(_period != 1, s != 0)


model = Model(
    n_periods=3,
    functions={"utility": utility, "next_s": next_s, "s_filter": s_filter},
    choices={"d": DiscreteGrid(D)},
    states={"s": DiscreteGrid(S)},
)
solve, params = get_lcm_function(model, targets="solve", jit=False, debug_mode=False)
params["beta"] = 1.0
V = [np.asarray(v) for v in solve(params)]
# exact: V2[s] = s + .1 ; V1 over s in {1,2}: s+.1+V2[max(s,1)] ; V0[s] = s+.1+V1[max(s,1)]
V2 = np.array([0.1, 1.1, 2.1])
V1 = np.array([1.1 + V2[1], 2.1 + V2[2]])  # states 1, 2 only
V0 = np.array([0.1 + V1[0], 1.1 + V1[0], 2.1 + V1[1]])
ok = np.allclose(V[2], V2) and np.allclose(V[1], V1) and np.allclose(V[0], V0)
print("V0", V[0], "expected", V0)
print("V1", V[1], "expected", V1)
sys.exit(0 if ok else 1)
