"""D3: simulate() never selects dense_argmax by sparse_argmax.

Model with one filter-restricted discrete choice (d) and one unrestricted discrete
choice (e): dense_argmax has one entry per (agent x feasible sparse choice) row, the
reported dense choice must have one entry per agent.
Run:  PYTHONPATH=<repo>/src /venv/bin/python D3_repro.py   (exit 0 = correct)
"""
import itertools
import sys
from dataclasses import dataclass
import jax.numpy as jnp
import numpy as np
from lcm import DiscreteGrid, Model
from lcm.entry_point import get_lcm_function


@dataclass
class S:
    a: int = 0
    b: int = 1
    c: int = 2


@dataclass
class B:
    no: int = 0
    yes: int = 1


def utility(s, d, e):
    return 1.0 * s * d - 0.7 * d * e + 0.3 * e * (s - 1) + 0.05 * d


def next_s(s, d, e):
    return jnp.clip(s + d - e, 0, 2)


def d_filter(s, d):
    return jnp.logical_or(s > 0, d == 0)


model = Model(
    n_periods=2,
    functions={"utility": utility, "next_s": next_s, "d_filter": d_filter},
    choices={"d": DiscreteGrid(B), "e": DiscreteGrid(B)},
    states={"s": DiscreteGrid(S)},
)
f, params = get_lcm_function(model, targets="solve_and_simulate", debug_mode=False)
params["beta"] = 0.9
init = {"s": jnp.array([0, 1, 2, 1])}
df = f(params, initial_states=init)
print(df)

# brute force
def u(s, d, e):
    return 1.0 * s * d - 0.7 * d * e + 0.3 * e * (s - 1) + 0.05 * d
def feas(s, d):
    return s > 0 or d == 0
V1 = {s: max(u(s, d, e) for d, e in itertools.product((0, 1), (0, 1)) if feas(s, d)) for s in (0, 1, 2)}
ok = True
for i, s in enumerate([0, 1, 2, 1]):
    best = max(
        (u(s, d, e) + 0.9 * V1[int(np.clip(s + d - e, 0, 2))], d, e)
        for d, e in itertools.product((0, 1), (0, 1)) if feas(s, d)
    )
    row = df.loc[(0, i)]
    ok &= abs(row["value"] - best[0]) < 1e-5 and row["d"] == best[1] and row["e"] == best[2]
sys.exit(0 if ok else 1)
