"""D9: u_and_f drops every argument whose name CONTAINS 'next_' (substring), while the
convention everywhere else is the PREFIX 'next_'. A state named 'annext_wealth' is
accepted and the first solve fails.  exit 0 = solves."""
import sys
import jax.numpy as jnp
from lcm import LinspaceGrid, Model
from lcm.entry_point import get_lcm_function


def utility(consumption, annext_wealth):
    return jnp.log(consumption) + 0.0 * annext_wealth


def next_annext_wealth(annext_wealth, consumption):
    return annext_wealth - consumption


def consumption_constraint(consumption, annext_wealth):
    return consumption <= annext_wealth


model = Model(
    n_periods=2,
    functions={
        "utility": utility,
        "next_annext_wealth": next_annext_wealth,
        "consumption_constraint": consumption_constraint,
    },
    choices={"consumption": LinspaceGrid(start=1, stop=10, n_points=5)},
    states={"annext_wealth": LinspaceGrid(start=1, stop=10, n_points=4)},
)
solve, params = get_lcm_function(model, targets="solve", debug_mode=False)
params["beta"] = 0.9
try:
    V = solve(params)
except Exception as e:  # noqa: BLE001
    print("FAILED:", type(e).__name__, e)
    sys.exit(1)
print([v.shape for v in V])
