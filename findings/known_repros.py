"""Runtime reproductions of the KNOWN findings D4, D5, D6a, D6b, D8 (accepted specs that fail
at the first call).  Run: PYTHONPATH=/repo/src /venv/bin/python known_repros.py
Prints one line per finding: 'Dx reproduced: <error>' or 'Dx NOT reproduced'."""
import sys
from dataclasses import dataclass
import jax.numpy as jnp
from lcm import DiscreteGrid, LinspaceGrid, Model
from lcm.entry_point import get_lcm_function


@dataclass
class B:
    no: int = 0
    yes: int = 1


def run(tag, model):
    try:
        f, params = get_lcm_function(model, targets="solve", debug_mode=False)
    except Exception as e:  # noqa: BLE001
        print(f"{tag}: rejected at build time ({type(e).__name__}: {str(e)[:80]}) -> not a finding")
        return
    params["beta"] = 0.9
    try:
        f(params)
        print(f"{tag} NOT reproduced (solve succeeded)")
    except Exception as e:  # noqa: BLE001
        print(f"{tag} reproduced: {type(e).__name__}: {str(e)[:100]}")


# D4: a state that enters only a filter (upstream issue #30)
def u4(consumption, working):
    return jnp.log(consumption) - 0.3 * working
def next_wealth(wealth, consumption, working):
    return wealth - consumption + working
def next_lagged(working):
    return working
def absorbing_filter(working, lagged):
    return jnp.logical_or(working == 0, lagged == 1)
def cons_constraint(consumption, wealth):
    return consumption <= wealth
run("D4", Model(n_periods=2,
    functions={"utility": u4, "next_wealth": next_wealth, "next_lagged": next_lagged,
               "absorbing_filter": absorbing_filter, "cons_constraint": cons_constraint},
    choices={"working": DiscreteGrid(B), "consumption": LinspaceGrid(start=1, stop=5, n_points=4)},
    states={"wealth": LinspaceGrid(start=1, stop=5, n_points=4), "lagged": DiscreteGrid(B)}))

# D5: a state used only by transition functions (auxiliary)
def u5(consumption):
    return jnp.log(consumption)
def next_wealth5(wealth, consumption, exp):
    return wealth - consumption + 0.1 * exp
def next_exp(exp):
    return exp
run("D5", Model(n_periods=3,
    functions={"utility": u5, "next_wealth": next_wealth5, "next_exp": next_exp, "cons_constraint": cons_constraint},
    choices={"consumption": LinspaceGrid(start=1, stop=5, n_points=4)},
    states={"wealth": LinspaceGrid(start=1, stop=5, n_points=4), "exp": DiscreteGrid(B)}))

# D6a: continuous choice in a filter
def u6(consumption, d):
    return jnp.log(consumption) + d
def next_w6(wealth, consumption):
    return wealth - consumption
def c_filter(consumption, d):
    return jnp.logical_or(d == 0, consumption > 2)
run("D6a", Model(n_periods=2,
    functions={"utility": u6, "next_wealth": next_w6, "c_filter": c_filter, "cons_constraint": cons_constraint},
    choices={"consumption": LinspaceGrid(start=1, stop=5, n_points=4), "d": DiscreteGrid(B)},
    states={"wealth": LinspaceGrid(start=1, stop=5, n_points=4)}))

# D6b: continuous state in a filter
def w_filter(wealth, d):
    return jnp.logical_or(d == 0, wealth > 2)
run("D6b", Model(n_periods=2,
    functions={"utility": u6, "next_wealth": next_w6, "w_filter": w_filter, "cons_constraint": cons_constraint},
    choices={"consumption": LinspaceGrid(start=1, stop=5, n_points=4), "d": DiscreteGrid(B)},
    states={"wealth": LinspaceGrid(start=1, stop=5, n_points=4)}))

# D8: a valid one-point continuous state grid
run("D8", Model(n_periods=2,
    functions={"utility": u5, "next_wealth": next_w6, "cons_constraint": cons_constraint},
    choices={"consumption": LinspaceGrid(start=1, stop=5, n_points=4)},
    states={"wealth": LinspaceGrid(start=1, stop=5, n_points=1)}))

# D4b: a CHOICE that enters only a filter
def u4b(consumption, wealth):
    return jnp.log(consumption) + 0 * wealth
def gate_filter(gate, lagged):
    return jnp.logical_or(gate == 0, lagged == 1)
def next_lagged_b(lagged):
    return lagged
def u4c(consumption, lagged):
    return jnp.log(consumption) + 0.1 * lagged
run("D4b", Model(n_periods=2,
    functions={"utility": u4c, "next_wealth": next_w6, "next_lagged": next_lagged_b,
               "gate_filter": gate_filter, "cons_constraint": cons_constraint},
    choices={"gate": DiscreteGrid(B), "consumption": LinspaceGrid(start=1, stop=5, n_points=4)},
    states={"wealth": LinspaceGrid(start=1, stop=5, n_points=4), "lagged": DiscreteGrid(B)}))

# D4c: a state that enters no function at all (but has a transition)
def next_unused(consumption):
    return 0 * consumption.astype(int)
run("D4c", Model(n_periods=2,
    functions={"utility": u5, "next_wealth": next_w6, "next_idle": lambda idle: idle, "cons_constraint": cons_constraint},
    choices={"consumption": LinspaceGrid(start=1, stop=5, n_points=4)},
    states={"wealth": LinspaceGrid(start=1, stop=5, n_points=4), "idle": DiscreteGrid(B)}))

# D4d: a choice that enters no function at all
run("D4d", Model(n_periods=2,
    functions={"utility": u5, "next_wealth": next_w6, "cons_constraint": cons_constraint},
    choices={"consumption": LinspaceGrid(start=1, stop=5, n_points=4), "idle": DiscreteGrid(B)},
    states={"wealth": LinspaceGrid(start=1, stop=5, n_points=4)}))

# D10: a choice that enters only a transition function (fails in the last period)
def next_wealth10(wealth, consumption, invest):
    return (wealth - consumption) * (1.0 + 0.1 * invest)
run("D10", Model(n_periods=2,
    functions={"utility": u5, "next_wealth": next_wealth10, "cons_constraint": cons_constraint},
    choices={"consumption": LinspaceGrid(start=1, stop=5, n_points=4), "invest": DiscreteGrid(B)},
    states={"wealth": LinspaceGrid(start=1, stop=5, n_points=4)}))

# D10 with a single period: no transition is ever needed
run("D10-one-period", Model(n_periods=1,
    functions={"utility": u5, "next_wealth": next_wealth10, "cons_constraint": cons_constraint},
    choices={"consumption": LinspaceGrid(start=1, stop=5, n_points=4), "invest": DiscreteGrid(B)},
    states={"wealth": LinspaceGrid(start=1, stop=5, n_points=4)}))

# D4e: a state that enters a filter and a transition, but not utility/constraints
def next_exp_e(exp, working):
    return jnp.minimum(exp + working, 1)
def exp_filter(exp, working):
    return jnp.logical_or(working == 0, exp == 0)
run("D4e", Model(n_periods=2,
    functions={"utility": u4, "next_wealth": next_w6, "next_exp": next_exp_e, "exp_filter": exp_filter,
               "cons_constraint": cons_constraint},
    choices={"working": DiscreteGrid(B), "consumption": LinspaceGrid(start=1, stop=5, n_points=4)},
    states={"wealth": LinspaceGrid(start=1, stop=5, n_points=4), "exp": DiscreteGrid(B)}))

# D4f: a choice that enters a filter and a transition, but not utility/constraints
def next_exp_f(exp, train):
    return jnp.minimum(exp + train, 1)
def train_filter(exp, train):
    return jnp.logical_or(train == 0, exp == 0)
def u4f(consumption, exp):
    return jnp.log(consumption) + 0.1 * exp
run("D4f", Model(n_periods=2,
    functions={"utility": u4f, "next_wealth": next_w6, "next_exp": next_exp_f, "train_filter": train_filter,
               "cons_constraint": cons_constraint},
    choices={"train": DiscreteGrid(B), "consumption": LinspaceGrid(start=1, stop=5, n_points=4)},
    states={"wealth": LinspaceGrid(start=1, stop=5, n_points=4), "exp": DiscreteGrid(B)}))
