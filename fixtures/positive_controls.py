"""Positive controls: tiny functions that VIOLATE the zero-finding rules (R7, R8).
Parsed by the analyser on every run (never imported); each must be flagged, otherwise the
rule is reported as broken (ANALYSIS-UNDECIDED) instead of passing vacuously."""
# ruff: noqa
import functools

from lcm.dispatchers import productmap

_CACHE = {}


def mutates_argument(params):
    params["beta"] = 0.5
    return params


def mutates_alias(model):
    functions = model.functions
    functions["utility"] = None
    return functions


def mutates_module_state(key, value):
    _CACHE[key] = value
    return _CACHE


def make_counter():
    calls = []

    def count(x):
        calls.append(x)
        return len(calls)

    return count


@functools.lru_cache
def memoised(x):
    return x


def hash_ordered_axes(func, names_a, names_b):
    variables = list(set(names_a) | set(names_b))
    return productmap(func, variables=variables)


def alphabetical_axes(func, names):
    return productmap(func, variables=sorted(names))


def skips_arguments_with_defaults(func):
    # positive control for R16.DEFAULTS: arguments that have a default value are treated as optional
    import inspect

    return {
        name
        for name, spec in inspect.signature(func).parameters.items()
        if spec.default is inspect.Parameter.empty
    }


def skips_keyword_only_arguments(func):
    # positive control for R16.DEFAULTS (kind clause): only arguments of one kind are collected
    import inspect

    return {
        spec.name
        for spec in inspect.signature(func).parameters.values()
        if spec.kind is spec.POSITIONAL_OR_KEYWORD
    }


def salted_key(name, seed):
    # positive control for R7.ORD (hash clause): a value derived from hash() of a string differs between processes
    return seed + hash(name) % 1000


def calls_model_dag_on_whole_grids(model, grids):
    # positive control for R10.SCALAR: the concatenated model function is evaluated on whole arrays
    from dags import concatenate_functions

    f = concatenate_functions(functions=model.functions, targets=["utility"])
    return f(**grids)
