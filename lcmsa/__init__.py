"""lcmsa -- static analysis of OpenSourceEconomics/lcm against properties C01-C20."""
