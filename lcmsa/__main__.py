"""CLI: python -m lcmsa <PROPERTY|all> [--tier quick|thorough] [--replay FILE]"""

from __future__ import annotations

import argparse
import json
import os
import sys
import traceback

from lcmsa import registry
from lcmsa.core import AnalysisError, Program
from lcmsa.report import (
    PROVED,
    REFUTED,
    UNDECIDED,
    VERIF,
    Ctx,
    Result,
    load_known,
    now,
    write_evidence,
)


def run_property(prop: str, tier: str, seed: int, prog: Program, cache: dict, *, quiet=False,
                 write=True):
    t0 = now()
    spec = registry.PROPERTIES[prop]
    obs, advisories, counts, extra = [], [], {}, {}
    for rule_fn in spec["rules"] + (spec.get("thorough_rules", []) if tier == "thorough" else []):
        name = rule_fn.rule_name
        if name not in cache:
            ctx = Ctx(prog)
            rule_fn(ctx)
            cache[name] = ctx
        c = cache[name]
        keep = spec.get("filter", {}).get(name)
        for o in c.obs:
            if keep is not None and not keep(o):
                continue
            obs.append(o)
        advisories += c.advisories
        for k, v in c.counts.items():
            counts[f"{name}.{k}"] = v
        if getattr(c, "exhaustive_note", None):
            extra["exhaustive_parts"] = extra.get("exhaustive_parts", []) + [c.exhaustive_note]
    res = Result(prop, obs, sorted(set(advisories)), counts, extra)

    known = [k for k in load_known() if k.prop == prop]
    known_keys = {k.key: k for k in known}
    lines, violations, known_hit, undecided = [], 0, [], 0
    replay_dir = VERIF / "evidence" / "replay"
    for o in obs:
        if o.status == REFUTED:
            if o.key in known_keys:
                known_hit.append(o.key)
                lines.append(f"KNOWN-FINDING: property={prop} {o.key} -- {known_keys[o.key].text} [{o.where}]")
            else:
                violations += 1
                replay_dir.mkdir(parents=True, exist_ok=True)
                safe = "".join(ch if ch.isalnum() or ch in "-_." else "_" for ch in o.key)[:100]
                rp = replay_dir / f"{prop}-{safe}.json"
                rp.write_text(json.dumps({"property": prop, **o.as_dict()}, indent=1))
                lines.append(f"VIOLATION property={prop} replay={rp}")
                lines.append(f"  rule {o.rule} | {o.key} | {o.where}\n  {o.detail}"
                             + (f"\n  lhs: {o.lhs[:300]}\n  rhs: {o.rhs[:300]}" if o.lhs or o.rhs else ""))
        elif o.status == UNDECIDED:
            undecided += 1
            lines.append(f"ANALYSIS-UNDECIDED property={prop} rule={o.rule} key={o.key} [{o.where}] {o.detail}")
    wall = now() - t0
    if write:
        write_evidence(
            prop, tier, seed, res, prog, wall, known_hit, violations,
            explanation=spec["explanation"], trusted=spec.get("trusted", registry.TRUSTED_COMMON),
            assumptions=spec.get("assumptions", registry.ASSUMPTIONS_COMMON),
            cmd=f"./check {prop} --tier {tier}",
        )
    if not quiet:
        n_p = sum(o.status == PROVED for o in obs)
        print(f"[{prop}] tier={tier} obligations={len(obs)} proved={n_p} refuted={sum(o.status == REFUTED for o in obs)} "
              f"undecided={undecided} known={len(known_hit)} wall={wall:.2f}s")
        for ln in lines:
            print(ln)
    status = 1 if violations else 2 if undecided else 0
    return status, res, lines


def main(argv=None):
    ap = argparse.ArgumentParser(prog="lcmsa")
    ap.add_argument("prop")
    ap.add_argument("--tier", default=os.environ.get("VERIF_TIER", "quick"), choices=["quick", "thorough"])
    ap.add_argument("--replay")
    ap.add_argument("--repo")
    ap.add_argument("--no-evidence", action="store_true")
    ap.add_argument("--no-selftest", action="store_true")
    a = ap.parse_args(argv)
    seed = int(os.environ.get("VERIF_SEED", "0") or 0)
    try:
        prog = Program(a.repo) if a.repo else Program()
        assert "lcm" not in sys.modules and "jax" not in sys.modules  # noqa: S101
        cache: dict = {}
        props = sorted(registry.PROPERTIES) if a.prop == "all" else [a.prop]
        worst = 0
        for p in props:
            if p not in registry.PROPERTIES:
                print(f"ANALYSIS-ERROR unknown or unclaimed property {p}")
                return 2
            if a.replay:
                return replay(p, a.replay, prog, cache)
            st, _res, _lines = run_property(p, a.tier, seed, prog, cache, write=not a.no_evidence)
            if a.tier == "thorough" and st == 0 and not a.no_selftest:
                from lcmsa import selftest

                st = selftest.run_for_property(p, seed)
            worst = max(worst, st) if st != 1 else 1 if worst != 1 else 1
            if st == 1:
                worst = 1
        return worst
    except AnalysisError as e:
        print(f"ANALYSIS-ERROR {e}")
        return 2
    except Exception:  # noqa: BLE001
        print("ANALYSIS-ERROR internal error of the analyser:")
        traceback.print_exc()
        return 2


def replay(prop, path, prog, cache):
    want = json.load(open(path))
    _st, res, _ = run_property(prop, "quick", 0, prog, cache, quiet=True, write=False)
    for o in res.obs:
        if o.key == want.get("key"):
            print(json.dumps(o.as_dict(), indent=1))
            if o.status == REFUTED:
                print(f"VIOLATION property={prop} replay={path}")
                return 1
            return 0 if o.status == PROVED else 2
    print(f"obligation {want.get('key')} no longer exists on this tree")
    return 0


if __name__ == "__main__":
    sys.exit(main())
