"""Normal forms: polynomial arithmetic, jnp function/method unification, None-tests.

``norm(t)`` maps a term to a canonical term such that spellings that mean the same thing in
the vocabulary of this code base become *equal*:

* ``a + b*c`` / ``c*b + a`` / ``jnp.add(a, jnp.multiply(b, c))``  -> one polynomial
* ``x.max(axis=k)`` / ``jnp.max(x, axis=k)`` / ``jnp.max(x, k)``   -> ('op', 'max', x, kwargs)
* ``a & b`` / ``jnp.logical_and(b, a)``                            -> ('op', 'and', sorted)
* ``x is not None`` branches                                       -> ('ifnone', x, none, some)
* ``-jnp.inf``                                                     -> ('const', '-inf')
"""

from __future__ import annotations

from fractions import Fraction

from lcmsa.core import callee_name, is_term, walk

# positional signatures of the library functions that occur in lcm
SIGNATURES = {
    "max": ("a", "axis"), "min": ("a", "axis"), "sum": ("a", "axis"), "prod": ("a", "axis"),
    "argmax": ("a", "axis"), "argmin": ("a", "axis"), "any": ("a", "axis"), "all": ("a", "axis"),
    "mean": ("a", "axis"),
    "clip": ("a", "min", "max"),
    "repeat": ("a", "repeats", "axis"), "tile": ("a", "reps"),
    "broadcast_to": ("a", "shape"), "unravel_index": ("a", "shape"),
    "reshape": ("a", "shape"), "transpose": ("a", "axes"), "astype": ("a", "dtype"),
    "segment_max": ("data", "segment_ids", "num_segments", "indices_are_sorted"),
    "segment_sum": ("data", "segment_ids", "num_segments", "indices_are_sorted"),
    "logsumexp": ("a", "axis"),
    "linspace": ("start", "stop", "num"), "logspace": ("start", "stop", "num"),
    "arange": ("start",), "floor": ("a",), "exp": ("a",), "log": ("a",), "array": ("a",),
    "concatenate": ("a", "axis"), "stack": ("a", "axis"), "unique": ("a",),
    "full": ("shape", "fill_value"),
    "cumsum": ("a", "axis"), "count_nonzero": ("a", "axis"), "nonzero": ("a",), "where": ("condition", "x", "y"),
    "isclose": ("a", "b"), "meshgrid": (), "broadcast_arrays": (),
}
ELEMENTWISE_BIN = {
    "add": "+", "subtract": "-", "multiply": "*", "divide": "/", "true_divide": "/",
    "logical_and": "and", "logical_or": "or", "maximum": "maximum", "minimum": "minimum",
}
# library / operator-module spellings of Python operators: jnp.equal(a, b) is a == b, operator.mul(a, b) is a * b
FUNC_AS_BINOP = {"add": "+", "subtract": "-", "sub": "-", "multiply": "*", "mul": "*", "divide": "/", "true_divide": "/",
                 "truediv": "/", "power": "**", "pow": "**", "floor_divide": "//", "floordiv": "//", "mod": "%",
                 "bitwise_and": "&", "and_": "&", "bitwise_or": "|", "or_": "|"}
FUNC_AS_CMP = {"equal": "==", "eq": "==", "not_equal": "!=", "ne": "!=", "less": "<", "lt": "<", "less_equal": "<=", "le": "<=",
               "greater": ">", "gt": ">", "greater_equal": ">=", "ge": ">="}
FUNC_AS_UNOP = {"negative": "-", "neg": "-", "logical_not": "~", "invert": "~", "bitwise_not": "~", "inv": "~"}
NS_PREFIXES = ("jax.numpy.", "numpy.", "jax.ops.", "jax.scipy.special.", "jax.lax.", "jax.nn.")
METHODS = {
    "max", "min", "sum", "prod", "argmax", "argmin", "any", "all", "mean", "reshape", "transpose",
    "astype", "clip", "repeat", "flatten", "ravel", "squeeze", "cumsum", "round", "count_nonzero",
}


def lib_op(name: str | None):
    if not name:
        return None
    for p in NS_PREFIXES:
        if name.startswith(p):
            op = name[len(p):]
            return "array" if op == "asarray" else op  # asarray / array: the same values (copy semantics are not modelled)
    if name.startswith("operator."):
        return name[len("operator."):]
    return None


# -------------------------------------------------------------------------------------
# polynomials: dict {monomial(tuple of (atom, power) sorted): Fraction}
# -------------------------------------------------------------------------------------


def p_const(c):
    return {(): Fraction(c)} if c != 0 else {}


def p_atom(a):
    return {((a, 1),): Fraction(1)}


def p_add(x, y, sign=1):
    out = dict(x)
    for m, c in y.items():
        out[m] = out.get(m, 0) + sign * c
        if out[m] == 0:
            del out[m]
    return out


def p_mul(x, y):
    out = {}
    for m1, c1 in x.items():
        for m2, c2 in y.items():
            d = dict(m1)
            for a, k in m2:
                d[a] = d.get(a, 0) + k
            m = tuple(sorted(((a, k) for a, k in d.items() if k != 0), key=repr))
            out[m] = out.get(m, 0) + c1 * c2
            if out[m] == 0:
                del out[m]
    return out


def p_inv(x):
    """1/x for a single-term polynomial, else an opaque atom."""
    if len(x) == 1:
        (m, c), = x.items()
        return {tuple((a, -k) for a, k in m): 1 / c}
    return {((("poly", freeze(x)), -1),): Fraction(1)}


def freeze(p):
    return tuple(sorted(((m, str(c)) for m, c in p.items()), key=repr))


def poly(t, env=None):
    """Polynomial of a *normalised-atom* view of term t."""
    if t[0] == "const" and isinstance(t[1], (int, float)) and not isinstance(t[1], bool):
        try:
            return p_const(Fraction(t[1]).limit_denominator(10**9) if isinstance(t[1], float) else t[1])
        except (ValueError, OverflowError):
            return p_atom(t)
    if t[0] == "binop" and t[1] in ("+", "-"):
        return p_add(poly(t[2]), poly(t[3]), 1 if t[1] == "+" else -1)
    if t[0] == "binop" and t[1] == "*":
        return p_mul(poly(t[2]), poly(t[3]))
    if t[0] == "binop" and t[1] == "/":
        return p_mul(poly(t[2]), p_inv(poly(t[3])))
    if t[0] == "unop" and t[1] == "-":
        return p_mul(p_const(-1), poly(t[2]))
    if t[0] == "unop" and t[1] == "+":
        return poly(t[2])
    if t[0] == "call":
        op = lib_op(callee_name(t))
        if op in ("add", "subtract", "multiply", "divide", "true_divide") and len(t[2]) == 2:
            return poly(("binop", ELEMENTWISE_BIN[op], t[2][0], t[2][1]))
        if op == "negative" and len(t[2]) == 1:
            return poly(("unop", "-", t[2][0]))
    return p_atom(norm(t, _arith=False))


def _is_setlike(t):
    return is_term(t) and (t[0] == "set" or (t[0] == "comp" and t[1] == "set")
                           or (t[0] == "call" and t[1] in (("glob", "builtins.set"), ("glob", "builtins.frozenset")))
                           or (t[0] == "binop" and t[1] in ("-", "|", "&", "^") and (_is_setlike(t[2]) or _is_setlike(t[3]))))


def _norm_setlike(n):
    """Is the NORMALISED term certainly a set?"""
    if not is_term(n):
        return False
    if n[0] == "set" or (n[0] == "comp" and n[1] == "set"):
        return True
    if n[0] == "call" and n[1] in (("glob", "builtins.set"), ("glob", "builtins.frozenset")):
        return True
    if n[0] == "bar" and len(n) == 2:
        return any(_norm_setlike(x) for x in n[1])
    if n[0] in ("if", "ifnone", "phi", "ifexp") and len(n) == 4:
        return _norm_setlike(n[2]) and _norm_setlike(n[3])
    if n[0] == "binop" and n[1] in ("-", "&", "^"):
        return _norm_setlike(n[2])
    if n[0] == "op" and len(n) == 3 and n[1] == "and":
        return any(_norm_setlike(x) for x in n[2])
    return False


def is_arith(t):
    if t[0] == "binop" and t[1] == "-" and (_is_setlike(t[2]) or _is_setlike(t[3])):
        return False  # set difference
    if t[0] == "binop" and t[1] in ("+", "-", "*", "/"):
        return True
    if t[0] == "unop" and t[1] in ("-", "+"):
        return True
    if t[0] == "call" and lib_op(callee_name(t)) in ("add", "subtract", "multiply", "divide", "true_divide", "negative"):
        return True
    return False


# -------------------------------------------------------------------------------------
# norm
# -------------------------------------------------------------------------------------

QUERY_CANON = None  # set by rules_kernel: query string -> canonical selection term

NEG_INF = ("const", "-inf")
POS_INF = ("const", "inf")
NAN = ("const", "nan")


def _truthiness(c):
    """Spellings of `x is non-empty / true` in a condition: bool(x), len(x) > 0, len(x) != 0, len(x) >= 1 -> (x, False);
    len(x) == 0, len(x) < 1 -> (x, True).  (For the sized containers these are written for.)"""
    if not is_term(c):
        return None
    if c[0] == "call" and c[1] == ("glob", "builtins.bool") and len(c[2]) == 1 and not c[3]:
        return c[2][0], False
    if c[0] == "cmp" and len(c[1]) == 1 and len(c[2]) == 2:
        a, b = c[2]
        op = c[1][0]
        if b[0] == "call" and b[1] == ("glob", "builtins.len") and a[0] == "const":
            a, b = b, a
            op = {"<": ">", ">": "<", "<=": ">=", ">=": "<=", "==": "==", "!=": "!="}.get(op)
        if op and a[0] == "call" and a[1] == ("glob", "builtins.len") and len(a[2]) == 1 and not a[3] and b[0] == "const":
            k = b[1]
            if (op, k) in ((">", 0), ("!=", 0), (">=", 1)):
                return a[2][0], False
            if (op, k) in (("==", 0), ("<", 1), ("<=", 0)):
                return a[2][0], True
    return None


def _none_test(c):
    """cond -> (x, True if 'x is None') for ``x is None`` / ``x is not None`` else None."""
    if c[0] == "cmp" and c[1] in (("is",), ("is not",)) and c[2][1] == ("const", None):
        return c[2][0], c[1] == ("is",)
    if c[0] == "not":
        r = _none_test(c[1])
        return None if r is None else (r[0], not r[1])
    if c[0] == "unop" and c[1] == "not":
        r = _none_test(c[2])
        return None if r is None else (r[0], not r[1])
    return None


def _looks_like_list(t):
    """A `+` whose operands (recursively) include a list display or list(...): concatenation."""
    for side in (t[2], t[3]):
        if side[0] in ("list", "tuple") or (side[0] == "call" and side[1] in (("glob", "builtins.list"), ("glob", "builtins.tuple"))):
            return True
        if side[0] == "binop" and side[1] == "*" and _is_seq_display(side):
            return True
        if side[0] == "binop" and side[1] == "+" and _looks_like_list(side):
            return True
        if side[0] == "sub" and side[2][0] == "slice":
            return True  # L[1:] + [...]
    return False


def _strip_keys(x):
    """X.keys() -> X (same iteration order, same membership)."""
    if is_term(x) and x[0] == "call" and x[1][0] == "attr" and x[1][2] == "keys" and not x[2] and not x[3]:
        return x[1][1]
    return x


_CONTAINER_CASTS = {"builtins.set", "builtins.list", "builtins.tuple", "builtins.frozenset", "builtins.sorted"}


def _membership_base(x):
    """`e in set(X)`, `e in list(X)`, `e in X.index.tolist()`, `e in X.keys()` all test membership in X[.index]."""
    while True:
        y = _strip_keys(x)
        if is_term(y) and y[0] == "call" and y[1][0] == "glob" and y[1][1] in _CONTAINER_CASTS and len(y[2]) == 1 and not y[3]:
            y = y[2][0]
        elif is_term(y) and y[0] == "call" and y[1][0] == "attr" and y[1][2] in ("tolist", "to_list") and not y[2] and not y[3] \
                and is_term(y[1][1]) and y[1][1][0] == "attr" and y[1][1][2] == "index":  # a pandas Index, not a Series
            y = y[1][1]
        if y == x:
            return x
        x = y


def identity_comp(t):
    """{k: v for k, v in X} == dict(X);  [x for x in X] == list(X);  {x for x in X} == set(X)  (no filter)."""
    if not (is_term(t) and t[0] == "comp" and len(t) == 4 and len(t[3]) == 1 and not t[3][0][2]):
        return t
    tg, it, _c = t[3][0]
    if t[1] == "dict" and is_term(tg) and tg[0] == "tuple" and len(tg[1]) == 2 and t[2] == (tg[1][0], tg[1][1]):
        return ("call", ("glob", "builtins.dict"), (it,), ())
    if t[1] == "dict" and is_term(tg) and tg[0] == "tuple" and len(tg[1]) == 2 and t[2] == (tg[1][1], tg[1][0]) \
            and is_term(it) and it[0] == "call" and it[1] == ("glob", "builtins.zip") and len(it[2]) == 2:
        # the zip arguments were put into canonical order (deindex): {b: a for a, b in zip(A, B)} == dict(zip(B, A))
        return ("call", ("glob", "builtins.dict"), (("call", it[1], (it[2][1], it[2][0]), it[3]),), ())
    if t[1] in ("list", "set") and is_term(tg) and tg[0] == "bv" and t[2] == tg:
        return ("call", ("glob", f"builtins.{t[1]}"), (it,), ())
    return t


def _chain_parts(x):
    """itertools.chain(a, b, ...) / chain.from_iterable([a, b, ...]) / chain.from_iterable(f(c) for c in (c1, c2, ...))
    -> [a, b, ...]: the sequences that are concatenated, in order (None if not of that shape)."""
    if not (is_term(x) and x[0] == "call" and not x[3]):
        return None
    name = callee_name(x)
    if name == "itertools.chain" and x[2] and all(a[0] != "star" for a in x[2]):
        return list(x[2])
    if name == "itertools.chain.from_iterable" and len(x[2]) == 1:
        y = x[2][0]
        if y[0] in ("list", "tuple") and all(a[0] != "star" for a in y[1]):
            return list(y[1])
        if y[0] == "comp" and y[1] in ("gen", "list") and len(y[3]) == 1 and not y[3][0][2]:
            tg, it, _c = y[3][0]
            if is_term(tg) and tg[0] == "bv" and it[0] in ("tuple", "list") and all(a[0] == "const" for a in it[1]):
                return [_subst_terms(y[2], {tg: a}) for a in it[1]]
    return None


SEQ_ARGS = {"shape", "axes", "axis", "reps", "newshape", "in_axes", "out_axes", "source", "destination"}


def _seq_arg(n):
    """A (normalised) argument that is read as a sequence of ints: list or tuple, built any way, is one form."""
    if not is_term(n):
        return n
    if n[0] == "list":
        return ("tuple", n[1])
    if n[0] == "cat":
        return ("call", ("glob", "builtins.tuple"), (n,), ())
    if n[0] == "call" and n[1] == ("glob", "builtins.list") and len(n[2]) == 1 and not n[3]:
        return ("call", ("glob", "builtins.tuple"), n[2], ())
    if n[0] == "rep":
        return ("call", ("glob", "builtins.tuple"), (("cat", (("seq", n),)),), ())
    return n


def _is_seq_display(t):
    return is_term(t) and (t[0] in ("list", "tuple") or (t[0] == "binop" and t[1] == "*" and (_is_seq_display(t[2]) or _is_seq_display(t[3])))
                           or (t[0] == "binop" and t[1] == "+" and _is_seq_display(t[2]) and _is_seq_display(t[3])))


_ITER_CONSUMERS = {"builtins.any", "builtins.all", "builtins.sum", "builtins.tuple", "builtins.list", "builtins.set",
                   "builtins.frozenset", "builtins.sorted", "builtins.min", "builtins.max", "builtins.dict", "builtins.enumerate",
                   "math.prod"}


def _iterated_copy(x):
    while is_term(x) and x[0] == "call":
        if x[1] in (("glob", "builtins.list"), ("glob", "builtins.tuple")) and len(x[2]) == 1 and not x[3]:
            x = x[2][0]
        elif x[1][0] == "attr" and x[1][2] in ("tolist", "to_list") and not x[2] and not x[3] \
                and is_term(x[1][1]) and x[1][1][0] == "attr" and x[1][1][2] == "index":
            x = x[1][1]  # iterating index.tolist() is iterating the index
        else:
            break
    return x


def _iterated(x):
    """The argument of a consumer that only iterates it: list(y)/tuple(y) -> y, [f(i) for ...] -> (f(i) for ...)."""
    while is_term(x):
        if x[0] == "call" and x[1] in (("glob", "builtins.list"), ("glob", "builtins.tuple")) and len(x[2]) == 1 and not x[3]:
            x = x[2][0]
        elif x[0] == "comp" and x[1] == "list" and len(x) == 4:
            return ("comp", "gen", x[2], x[3])
        else:
            break
    return x


def _bar_parts(n):
    """Flatten a normalised `|`-chain / dict-merge into its ordered parts."""
    if is_term(n) and n[0] == "bar":
        return list(n[1])
    return [n]


def _mk_bar(parts):
    out = []
    for p in parts:
        # a copy of a mapping that is merged into a new mapping: dict(x), x.copy()
        if is_term(p) and p[0] == "call" and p[1] == ("glob", "builtins.dict") and len(p[2]) == 1 and not p[3] \
                and not (is_term(p[2][0]) and p[2][0][0] == "call" and p[2][0][1] == ("glob", "builtins.zip")) \
                and not (is_term(p[2][0]) and p[2][0][0] in ("comp", "list", "tuple")):
            p = p[2][0]
        elif is_term(p) and p[0] == "call" and is_term(p[1]) and p[1][0] == "attr" and p[1][2] == "copy" and not p[2] and not p[3]:
            p = p[1][1]
        if p == ("dict", ()):
            continue  # merging an empty dict changes nothing
        if out and is_term(p) and p[0] == "dict" and is_term(out[-1]) and out[-1][0] == "dict":
            out[-1] = ("dict", out[-1][1] + p[1])  # adjacent explicit items
        else:
            out.append(p)
    if not out:
        return ("dict", ())
    if len(out) == 1:
        return out[0]
    return ("bar", tuple(out))


def _is_tuple_form(n):
    return is_term(n) and (n[0] == "tuple" or (n[0] == "call" and n[1] == ("glob", "builtins.tuple") and len(n[2]) == 1 and not n[3]))


def _cat_parts(n):
    if is_term(n) and n[0] == "cat":
        return list(n[1])
    if is_term(n) and n[0] == "list":
        return [n] if n[1] else []
    if is_term(n) and n[0] == "tuple" and len(n) == 2 and all(x[0] != "star" for x in n[1]):
        return [("list", n[1])] if n[1] else []
    if is_term(n) and n[0] == "rep":
        return [("seq", n)]
    if is_term(n) and n[0] == "call" and n[1] == ("glob", "builtins.tuple") and len(n[2]) == 1 and not n[3]:
        inner = _cat_parts(n[2][0])
        return inner if inner is not None else [("seq", n[2][0])]
    if is_term(n) and n[0] == "call" and n[1] == ("glob", "builtins.list") and len(n[2]) == 1 and not n[3]:
        return [("seq", n[2][0])]
    return None


def _mk_cat(parts):
    out = []
    for p in parts:
        if out and p[0] == "list" and out[-1][0] == "list":
            out[-1] = ("list", out[-1][1] + p[1])
        else:
            out.append(p)
    if len(out) == 1 and out[0][0] == "list":
        return out[0]
    return ("cat", tuple(out))


def _subst_terms(t, mapping):
    if not isinstance(t, tuple):
        return t
    if is_term(t) and t in mapping:
        return mapping[t]
    return tuple(_subst_terms(x, mapping) if isinstance(x, tuple) else x for x in t)


def _plus_const(e, i):
    """k if e is `i + k` / `k + i` with an int constant k, else None."""
    if is_term(e) and e[0] == "binop" and e[1] == "+":
        if e[2] == i and e[3][0] == "const" and isinstance(e[3][1], int):
            return e[3][1]
        if e[3] == i and e[2][0] == "const" and isinstance(e[2][1], int):
            return e[2][1]
    return None


def _range_len_of(it):
    """range(len(S)) -> S ; range(S.ndim) -> S.shape ; else None."""
    if not (is_term(it) and it[0] == "call" and it[1] == ("glob", "builtins.range") and len(it[2]) == 1 and not it[3]):
        return None
    n = it[2][0]
    if n[0] == "call" and n[1] == ("glob", "builtins.len") and len(n[2]) == 1 and not n[3]:
        return n[2][0]
    if n[0] == "attr" and n[2] == "ndim":
        return ("attr", n[1], "shape")
    return None


def deindex(t):
    """Positional iteration in one shape (single-generator comprehensions only).

    ``f(A[i], B[i]) for i in range(len(A))``  ->  ``f(a, b) for a, b in zip(A, B)``
    ``g(i, A[i]) for i in range(len(A))``     ->  ``g(i, a) for i, a in enumerate(A)``
    ``zip(B, A, strict=...)``                 ->  ``zip(A, B)`` with the targets permuted
    The sequences iterated together are assumed to have one length (what `strict=True` enforces
    and what indexing by a common range presupposes); which of them supplied the length and
    whether a mismatch raises or truncates is not part of the normal form.
    """
    if not isinstance(t, tuple):
        return t
    return _deindex1(tuple(deindex(x) if isinstance(x, tuple) else x for x in t))


def _deindex1(t):
    if not (is_term(t) and t[0] == "comp" and len(t) == 4 and len(t[3]) == 1):
        return t
    tg, it, conds = t[3][0]
    if (is_term(tg) and tg[0] == "tuple" and len(tg[1]) == 2 and is_term(tg[1][0]) and tg[1][0][0] == "bv"
            and is_term(it) and it[0] == "call" and it[1] == ("glob", "builtins.enumerate") and it[2]
            and (len(it[2]) == 2 or any(k == "start" for k, _ in it[3]))):
        # enumerate(X, start=k) with i  ==  enumerate(X) with i + k
        start = it[2][1] if len(it[2]) == 2 else dict(it[3])["start"]
        i = tg[1][0]
        m = {i: ("binop", "+", i, start)}
        elt = tuple(_subst_terms(e, m) for e in t[2]) if t[1] == "dict" else _subst_terms(t[2], m)
        return _deindex1(("comp", t[1], elt, ((tg, ("call", it[1], (it[2][0],), ()), _subst_terms(conds, m)),)))
    if (is_term(tg) and tg[0] == "tuple" and len(tg[1]) == 2 and all(is_term(b) and b[0] == "bv" for b in tg[1])
            and is_term(it) and it[0] == "call" and it[1] == ("glob", "builtins.enumerate") and len(it[2]) == 1 and not it[3]):
        # for i, x in enumerate(X) using Y[i] / Y[i + k] only  ==  for x, y in zip(X, Y[k:])
        i, x = tg[1]
        seqs, ok = [], [True]

        def scan2(u):
            if not isinstance(u, tuple):
                return
            if is_term(u):
                if u == i:
                    ok[0] = False
                    return
                if u[0] == "sub" and i not in set(walk(u[1])):
                    k = 0 if u[2] == i else _plus_const(u[2], i)
                    if k is not None and k >= 0:
                        if (u[1], k) not in seqs:
                            seqs.append((u[1], k))
                        scan2(u[1])
                        return
            for y in u:
                scan2(y)

        scan2((t[2], conds))
        if ok[0] and seqs:
            depth = i[1]
            srcs = [it[2][0]] + [y if k == 0 else ("sub", y, ("slice", ("const", k), None, None)) for y, k in seqs]
            bvs = tuple(("bv", depth, n) for n in range(len(srcs)))
            def rew(u):
                if not isinstance(u, tuple):
                    return u
                if is_term(u):
                    if u == x:
                        return ("bvX",)
                    if u[0] == "sub" and i not in set(walk(u[1])):
                        k = 0 if u[2] == i else _plus_const(u[2], i)
                        if k is not None and (u[1], k) in seqs:
                            return ("bvY", seqs.index((u[1], k)))
                return tuple(rew(y) for y in u)
            def fin(u):
                if not isinstance(u, tuple):
                    return u
                if u == ("bvX",):
                    return bvs[0]
                if len(u) == 2 and u[0] == "bvY":
                    return bvs[1 + u[1]]
                return tuple(fin(y) for y in u)
            elt = fin(rew(t[2]))
            cs = fin(rew(conds))
            return _deindex1(("comp", t[1], elt, ((("tuple", bvs), ("call", ("glob", "builtins.zip"), tuple(srcs), ()), cs),)))
    body = (t[2], conds)
    if is_term(tg) and tg[0] == "bv":
        S = _range_len_of(it)
        if S is not None:
            subs, bare = [], [0]

            def scan(x):
                if not isinstance(x, tuple):
                    return
                if is_term(x):
                    if x == tg:
                        bare[0] += 1
                        return
                    if x[0] == "sub" and x[2] == tg and tg not in set(walk(x[1])):
                        if x[1] not in subs:
                            subs.append(x[1])
                        scan(x[1])
                        return
                for y in x:
                    scan(y)

            scan(body)
            depth = tg[1]
            if subs and S in subs and not bare[0]:
                xs = sorted(subs, key=repr)
                if len(xs) == 1:
                    m = {("sub", xs[0], tg): tg}
                    elt, cs = _subst_terms(t[2], m), _subst_terms(conds, m)
                    return ("comp", t[1], elt, ((tg, xs[0], cs),))
                bvs = tuple(("bv", depth, k) for k in range(len(xs)))
                m = {("sub", x, tg): b for x, b in zip(xs, bvs, strict=True)}
                elt, cs = _subst_terms(t[2], m), _subst_terms(conds, m)
                return ("comp", t[1], elt, ((("tuple", bvs), ("call", ("glob", "builtins.zip"), tuple(xs), ()), cs),))
            if subs == [S] and bare[0]:
                i2, a2 = ("bv", depth, 0), ("bv", depth, 1)
                m = {("sub", S, tg): a2}
                elt, cs = _subst_terms(t[2], m), _subst_terms(conds, m)
                return ("comp", t[1], elt, ((("tuple", (i2, a2)), ("call", ("glob", "builtins.enumerate"), (S,), ()), cs),))
        return t
    if (is_term(tg) and tg[0] == "tuple" and all(is_term(b) and b[0] == "bv" for b in tg[1])
            and is_term(it) and it[0] == "call" and it[1] == ("glob", "builtins.zip") and len(it[2]) == len(tg[1])
            and all(k == "strict" for k, _ in it[3])):
        pairs = sorted(zip(it[2], tg[1], strict=True), key=lambda p: repr(p[0]))
        depth = tg[1][0][1]
        m = {b: ("bv", depth, k) for k, (_x, b) in enumerate(pairs)}
        elt, cs = _subst_terms(t[2], m), _subst_terms(conds, m)
        bvs = tuple(("bv", depth, k) for k in range(len(pairs)))
        return ("comp", t[1], elt, ((("tuple", bvs), ("call", ("glob", "builtins.zip"), tuple(x for x, _ in pairs), ()), cs),))
    return t


_NEGATED_CMP = {"!=": "==", "not in": "in", "is not": "is"}


def norm(t, _arith=True):  # noqa: C901, PLR0911, PLR0912
    if not is_term(t):
        if isinstance(t, tuple):
            return tuple(norm(x) if isinstance(x, tuple) else x for x in t)
        return t
    tag = t[0]
    if tag in ("const", "param", "glob", "func", "class", "closure", "bv", "loopvar", "carried", "loopout",
               "undef", "unknown", "modvar"):
        if t == ("glob", "jax.numpy.inf") or t == ("glob", "numpy.inf") or t == ("glob", "math.inf"):
            return POS_INF
        if t in (("glob", "jax.numpy.nan"), ("glob", "numpy.nan"), ("glob", "math.nan")):
            return NAN
        return t
    if tag == "call" and t[1] == ("glob", "builtins.float") and len(t[2]) == 1 and not t[3] and t[2][0][0] == "const" \
            and isinstance(t[2][0][1], str) and t[2][0][1].strip().lower() in ("nan", "inf", "+inf", "-inf", "infinity", "-infinity"):
        v = t[2][0][1].strip().lower()
        return NAN if v == "nan" else NEG_INF if v.startswith("-") else POS_INF
    if tag == "call" and t[1] == ("glob", "builtins.len") and len(t[2]) == 1 and not t[3] and is_term(t[2][0]) \
            and t[2][0][0] == "attr" and t[2][0][2] == "shape":
        return ("attr", norm(t[2][0][1]), "ndim")  # len(x.shape) is x.ndim
    if tag == "call" and t[1] == ("glob", "builtins.isinstance") and len(t[2]) == 2 and not t[3] and is_term(t[2][1]) \
            and t[2][1][0] == "binop" and t[2][1][1] == "|":
        # isinstance(x, A | B) is isinstance(x, (A, B))
        def union(u):
            return union(u[2]) + union(u[3]) if is_term(u) and u[0] == "binop" and u[1] == "|" else [u]
        return norm(("call", t[1], (t[2][0], ("tuple", tuple(union(t[2][1])))), ()))
    if tag == "call" and is_term(t[1]) and t[1][0] == "attr" and t[1][2] in ("tolist", "to_list") and not t[2] and not t[3] \
            and is_term(t[1][1]) and t[1][1][0] == "attr" and t[1][1][2] == "values" \
            and is_term(t[1][1][1]) and t[1][1][1][0] == "attr" and t[1][1][1][2] == "index":
        return norm(("call", ("attr", t[1][1][1], "tolist"), (), ()))  # index.values.tolist() is index.tolist()
    if tag == "attr" and t[2] == "T" and len(t) == 3:
        # x.T is transpose(x) with the default axes
        return ("op", "transpose", (("a", norm(t[1])),), (), ())
    if tag == "binop" and t[1] == "*" and _is_seq_display(t):
        # [x] * n, (x,) * n: repetition of a display
        seq, n = (t[2], t[3]) if _is_seq_display(t[2]) else (t[3], t[2])
        ns = norm(seq)
        is_tuple = ns[0] == "tuple" or (ns[0] == "call" and ns[1] == ("glob", "builtins.tuple"))
        parts = _cat_parts(ns)
        base = ("list", ns[1]) if ns[0] in ("list", "tuple") else ("cat", tuple(parts)) if parts is not None else ns
        rep = ("rep", base, norm(n))
        return ("call", ("glob", "builtins.tuple"), (("cat", (("seq", rep),)),), ()) if is_tuple else rep
    if _arith and is_arith(t) and not (t[0] == "binop" and t[1] == "+" and _looks_like_list(t)):
        p = poly(t)
        if p == {(): Fraction(-1)} and False:
            return ("const", -1)
        # -inf
        if len(p) == 1:
            (m, c), = p.items()
            if m == ((POS_INF, 1),) and c == -1:
                return NEG_INF
            if m == ((POS_INF, 1),) and c == 1:
                return POS_INF
            if m == () and c.denominator == 1:
                return ("const", int(c))
            if len(m) == 1 and m[0][1] == 1 and c == 1:
                return m[0][0]
        return ("poly", freeze(p))
    if tag == "dict":
        parts, run = [], []
        for k, v in t[1]:
            if k is None:
                if run:
                    parts.append(("dict", tuple(run)))
                    run = []
                parts += _bar_parts(norm(v))
            else:
                run.append((norm(k), norm(v)))
        if run or not parts:
            parts.append(("dict", tuple(run)))
        return _mk_bar(parts) if any(k is None for k, _ in t[1]) else ("dict", tuple(run))
    if tag == "binop" and t[1] == "|":
        return _mk_bar(_bar_parts(norm(t[2])) + _bar_parts(norm(t[3])))
    if tag == "setitem":
        return _mk_bar(_bar_parts(norm(t[1])) + [("dict", ((norm(t[2]), norm(t[3])),))])
    if tag == "mut" and t[2] == "update" and len(t[3]) == 1 and not t[4]:
        return _mk_bar(_bar_parts(norm(t[1])) + _bar_parts(norm(t[3][0])))
    if tag == "tuple" and any(x[0] == "star" for x in t[1]):
        return ("call", ("glob", "builtins.tuple"), (norm(("list", t[1])),), ())
    if tag == "call" and t[1][0] == "attr" and t[1][2] in ("difference", "union", "intersection") and len(t[2]) == 1 and not t[3]:
        op = {"difference": "-", "union": "|", "intersection": "&"}[t[1][2]]
        arg = t[2][0]
        if _is_setlike(t[1][1]) and not _is_setlike(arg):
            arg = ("call", ("glob", "builtins.set"), (arg,), ())  # s.intersection(xs) == s & set(xs)
        return norm(("binop", op, t[1][1], arg))
    if tag == "call" and t[1] == ("glob", "builtins.len") and len(t[2]) == 1 and t[2][0][0] == "comp" and t[2][0][1] in ("list", "gen", "set") \
            and len(t[2][0][3]) == 1 and t[2][0][3][0][2]:
        c = t[2][0]
        tg, it, conds = c[3][0]
        cond = conds[0] if len(conds) == 1 else ("boolop", "and", tuple(conds))
        return ("op", "count", (("where", norm(cond)), ("for", norm(tg)), ("in", norm(_strip_keys(it)))), (), ())
    if tag == "call" and t[1] == ("glob", "builtins.sum") and len(t[2]) == 1 and t[2][0][0] == "comp" and len(t[2][0][3]) == 1 \
            and not t[2][0][3][0][2] and is_term(t[2][0][2]) and t[2][0][2][0] in ("cmp", "boolop"):
        c = t[2][0]
        tg, it, _conds = c[3][0]
        return ("op", "count", (("where", norm(c[2])), ("for", norm(tg)), ("in", norm(_strip_keys(it)))), (), ())
    if tag == "list" and any(x[0] == "star" for x in t[1]):
        parts = []
        for x in t[1]:
            if x[0] == "star":
                inner = norm(_iterated(_strip_keys(x[1])))  # *[f(i) for ...] and *(f(i) for ...) splice the same items
                sub_parts = _cat_parts(inner)  # *[a, b], *(x, *y), *([1] * n): spliced
                if sub_parts is not None:
                    parts.extend(sub_parts)
                else:
                    parts.append(("seq", inner))
            else:
                parts.append(("list", (norm(x),)))
        return _mk_cat(parts)
    if tag == "binop" and t[1] == "+":
        na, nb = norm(t[2]), norm(t[3])
        la, lb = _cat_parts(na), _cat_parts(nb)
        if la is not None or lb is not None:
            la = la if la is not None else [("seq", na)]
            lb = lb if lb is not None else [("seq", nb)]
            c = _mk_cat(la + lb)
            if _is_tuple_form(na) or _is_tuple_form(nb):
                return ("tuple", c[1]) if c[0] == "list" else ("call", ("glob", "builtins.tuple"), (c,), ())
            return c
    if tag in ("phi", "ifexp"):
        c = t[1]
        nt = _none_test(c)
        a, b = norm(t[2]), norm(t[3])
        if t[2] == ("undef",):
            return b  # the other arm is the only one on which the value is used (the rest raises)
        if t[3] == ("undef",):
            return a
        if nt is not None:
            x, is_none = nt
            return ("ifnone", norm(x), a if is_none else b, b if is_none else a)
        flipped = False
        while True:
            tr = _truthiness(c)
            if tr is not None:
                c, neg = tr
                flipped = flipped != neg
                continue
            if c[0] == "not" or (c[0] == "unop" and c[1] == "not"):
                c, flipped = (c[1] if c[0] == "not" else c[2]), not flipped
            elif c[0] == "cmp" and len(c[1]) == 1 and c[1][0] in _NEGATED_CMP:
                c, flipped = ("cmp", (_NEGATED_CMP[c[1][0]],), c[2]), not flipped
            else:
                break
        if flipped:
            a, b = b, a
        return ("if", norm(c), a, b)
    if tag == "call":
        f = t[1]
        if (QUERY_CANON is not None and f[0] == "attr" and f[2] == "query" and len(t[2]) == 1
                and t[2][0][0] == "const" and isinstance(t[2][0][1], str)):
            sel = QUERY_CANON(t[2][0][1])
            if sel is not None:
                return ("call", ("attr", norm(f[1]), "query"), (sel,), ())
        name = callee_name(t)
        if is_term(f) and f[0] == "call" and f[1] == ("glob", "functools.partial") and f[2] and all(k is not None for k, _ in f[3]) \
                and all(k is not None for k, _ in t[3]) and not any(p[0] == "star" for p in f[2]):
            # calling a partial object: partial(g, *a, **k)(*b, **c) == g(*a, *b, **{**k, **c})
            later = {k for k, _ in t[3]}
            merged = tuple(sorted([(k, v) for k, v in f[3] if k not in later] + list(t[3]), key=lambda kv: kv[0]))
            return norm(("call", f[2][0], tuple(f[2][1:]) + tuple(t[2]), merged))
        if name in ("builtins.range", "jax.numpy.arange", "numpy.arange") and len(t[2]) == 2 and t[2][0] == ("const", 0) and not t[3]:
            t = ("call", f, (t[2][1],), ())  # range(0, n) == range(n); the same for arange
        if f[0] == "attr" and f[2] == "to_list":
            t = ("call", ("attr", f[1], "tolist"), t[2], t[3])  # pandas' alias of tolist
            f = t[1]
        if name in _ITER_CONSUMERS and t[2]:
            # the consumer only iterates its argument: a list/tuple copy or a list comprehension in place of a
            # generator makes no difference
            t = ("call", f, (_iterated(t[2][0]), *t[2][1:]), t[3])
        if name == "builtins.list" and len(t[2]) == 1 and not t[3] and is_term(t[2][0]) and t[2][0][0] == "comp" and t[2][0][1] == "gen" \
                and len(t[2][0]) == 4:
            return norm(("comp", "list", t[2][0][2], t[2][0][3]))  # list(f(x) for x in xs) is [f(x) for x in xs]
        if name == "builtins.zip" and any(is_term(a) and a[0] == "call" and is_term(a[1]) and a[1][0] == "attr" and a[1][2] == "keys"
                                          and not a[2] and not a[3] for a in t[2]):
            # iterating a mapping is iterating its keys
            t = ("call", f, tuple(a[1][1] if (is_term(a) and a[0] == "call" and is_term(a[1]) and a[1][0] == "attr" and a[1][2] == "keys"
                                              and not a[2] and not a[3]) else a for a in t[2]), t[3])
        if name == "functools.reduce" and len(t[2]) >= 2:
            t = ("call", f, (t[2][0], _iterated(t[2][1]), *t[2][2:]), t[3])  # reduce only iterates its second argument
        if name == "builtins.zip" and any(k == "strict" for k, _ in t[3]):
            # whether a length mismatch raises or truncates is not part of the normal form (see deindex)
            t = ("call", f, t[2], tuple((k, v) for k, v in t[3] if k != "strict"))
        if name in ("builtins.set", "builtins.frozenset") and len(t[2]) == 1 and not t[3]:
            inner = norm(_strip_keys(t[2][0]))
            if _norm_setlike(inner):
                return inner  # set(<a set>) is that set
        if name == "builtins.list" and len(t[2]) == 1 and not t[3]:
            parts = _chain_parts(t[2][0])
            if parts is not None:
                return _mk_cat([("seq", norm(_strip_keys(x))) for x in parts])
        if name in ("builtins.set", "builtins.list", "builtins.tuple", "builtins.sorted", "builtins.len",
                    "builtins.frozenset", "builtins.iter", "builtins.enumerate") and len(t[2]) >= 1:
            t = ("call", f, (_strip_keys(t[2][0]), *t[2][1:]), t[3])
        op = lib_op(name)
        pargs = list(t[2])
        kws = [(k, v) for k, v in t[3]]
        # method call on an array: x.max(...) -> op
        if f[0] == "attr" and f[2] in METHODS and name is None:
            op = f[2]
            pargs = [f[1], *pargs]
        if op is not None and name is not None and not kws and not any(p[0] == "star" for p in pargs):
            if op in FUNC_AS_BINOP and len(pargs) == 2:
                return norm(("binop", FUNC_AS_BINOP[op], pargs[0], pargs[1]))
            if op in FUNC_AS_CMP and len(pargs) == 2:
                return norm(("cmp", (FUNC_AS_CMP[op],), (pargs[0], pargs[1])))
            if op in FUNC_AS_UNOP and len(pargs) == 1:
                return norm(("unop", FUNC_AS_UNOP[op], pargs[0]))
        if op is not None:
            if op in ELEMENTWISE_BIN and len(pargs) == 2 and not kws and ELEMENTWISE_BIN[op] in ("and", "or", "==", "maximum", "minimum"):
                sym = ELEMENTWISE_BIN[op]
                xs = sorted((norm(pargs[0]), norm(pargs[1])), key=repr)
                return ("op", sym, tuple(xs))
            sig = SIGNATURES.get(op)
            named = {}
            rest = []
            if sig is not None and op in ("reshape", "transpose") and pargs and pargs[0][0] != "star" \
                    and (len(pargs) > 2 or any(p[0] == "star" for p in pargs[1:])):
                # x.reshape(a, b, *rest): the dimensions given one by one
                named["a"] = norm(pargs[0])
                named[sig[1]] = norm(("tuple", tuple(pargs[1:])))
                pargs = []
            if sig is not None and not any(p[0] == "star" for p in pargs):
                for i, p in enumerate(pargs):
                    if i < len(sig):
                        named[sig[i]] = norm(p)
                    else:
                        rest.append(norm(p))
            else:
                rest = [norm(p) for p in pargs]
            splats = []
            for k, v in kws:
                if k is None:
                    splats.append(norm(v))
                else:
                    named[k] = norm(v)
            # defaults that do not matter
            if named.get("axis") == ("const", None):
                del named["axis"]
            if named.get("where") == ("const", None):
                del named["where"]
            if named.get("initial") == ("const", None):
                del named["initial"]
            if named.get("keepdims") == ("const", False):
                del named["keepdims"]
            if op in ("reshape", "transpose"):
                sh = named.get(sig[1])
                if sh is not None and sh[0] == "tuple" and len(sh[1]) == 1 and sh[1][0][0] in ("tuple", "list"):
                    named[sig[1]] = ("tuple", sh[1][0][1])
            for k in SEQ_ARGS & set(named):
                named[k] = _seq_arg(named[k])
            return ("op", op, tuple(sorted(named.items())), tuple(rest), tuple(sorted(splats, key=repr)))
        return ("call", norm(f), tuple(norm(p) for p in t[2]),
                tuple((k, norm(v)) for k, v in t[3]))
    if tag == "binop" and t[1] == "&":
        xs = sorted((norm(t[2]), norm(t[3])), key=repr)
        return ("op", "and", tuple(xs))
    if tag == "cmp" and len(t[1]) == 1 and t[1][0] in ("<", ">", "<=", ">=", "!=", "=="):
        a, b = norm(t[2][0]), norm(t[2][1])
        op = t[1][0]
        if repr(a) > repr(b):
            a, b = b, a
            op = {"<": ">", ">": "<", "<=": ">=", ">=": "<=", "!=": "!=", "==": "=="}[op]
        return ("cmp", (op,), (a, b))
    if tag == "boolop":
        return ("boolop", t[1], tuple(norm(x) for x in t[2]))
    if tag == "comp":
        t2 = _deindex1(t)
        if t2 != t:
            return norm(t2)
        t2 = identity_comp(t)
        if t2 is not t:
            return norm(t2)
        # what a generator iterates over: X.keys() -> X, list(X)/tuple(X) -> X (a copy that is only iterated)
        gens = tuple((norm(tg), norm(_strip_keys(_iterated_copy(_strip_keys(it)))), tuple(norm(c) for c in conds)) for tg, it, conds in t[3])
        elt = (norm(t[2][0]), norm(t[2][1])) if t[1] == "dict" else norm(t[2])
        return ("comp", t[1], elt, gens)
    if tag == "cmp" and len(t[1]) == 1 and t[1][0] in ("in", "not in"):
        return ("cmp", t[1], (norm(t[2][0]), norm(_membership_base(t[2][1]))))
    return tuple(norm(x) if isinstance(x, tuple) else x for x in t)


def rename_params(t, mapping):
    """Replace ('param', q, name) according to mapping {(q,name)|name: term}."""
    if not isinstance(t, tuple):
        return t
    if is_term(t) and t[0] == "param":
        if (t[1], t[2]) in mapping:
            return mapping[(t[1], t[2])]
        return t
    return tuple(rename_params(x, mapping) if isinstance(x, tuple) else x for x in t)


def first_difference(a, b, path="ret"):
    """Human-readable location of the first difference of two normal forms."""
    if a == b:
        return None
    if not (isinstance(a, tuple) and isinstance(b, tuple)):
        return f"{path}: {a!r} != {b!r}"
    if is_term(a) and is_term(b):
        if a[0] != b[0] or len(a) != len(b):
            return f"{path}: {_short(a)} != {_short(b)}"
        if a[0] == "op" and a[1] != b[1]:
            return f"{path}: operation {a[1]} != {b[1]}"
        if a[0] == "op" and len(a) == 5:
            da, db = dict(a[2]), dict(b[2])
            for k in sorted(set(da) | set(db)):
                if k not in da:
                    return f"{path}.{a[1]}: argument {k}= is missing (expected {_short(db[k])})"
                if k not in db:
                    return f"{path}.{a[1]}: unexpected argument {k}={_short(da[k])}"
                d = first_difference(da[k], db[k], f"{path}.{a[1]}({k})")
                if d:
                    return d
            if a[3] != b[3]:
                return f"{path}.{a[1]}: positional arguments differ"
            if a[4] != b[4]:
                return f"{path}.{a[1]}: splatted arguments differ: {_short(a[4])} != {_short(b[4])}"
            return None
    if len(a) != len(b):
        return f"{path}: {_short(a)} != {_short(b)}"
    for i, (x, y) in enumerate(zip(a, b, strict=True)):
        if x != y:
            if isinstance(x, tuple) and isinstance(y, tuple):
                d = first_difference(x, y, f"{path}/{a[0] if is_term(a) else i}")
                if d:
                    return d
            return f"{path}: {_short(x)} != {_short(y)}"
    return None


def _short(t):
    s = repr(t)
    return s if len(s) < 160 else s[:157] + "..."


# -------------------------------------------------------------------------------------
# canonical placement of conditionals: f(if(c, A, B)) == if(c, f(A), f(B)); nested ifs are
# ordered by their condition; x is None inside the None-branch of ifnone(x, ., .)
# -------------------------------------------------------------------------------------


class _Budget(Exception):
    pass


def _is_if(n):
    return is_term(n) and n[0] in ("if", "ifnone") and len(n) == 4


def _ckey(n):
    return (n[0], n[1])


def _excluded_by(key, other):
    """Assuming `x == K1` (key) holds, `x == K2` with another constant K2 is false."""
    if key[0] != "if" or other[0] != "if":
        return False
    a, b = key[1], other[1]
    if not (is_term(a) and is_term(b) and a[0] == "cmp" and b[0] == "cmp" and a[1] == ("==",) and b[1] == ("==",)):
        return False
    xa, xb = set(a[2]), set(b[2])
    common = xa & xb
    if len(common) != 1 or len(xa) != 2 or len(xb) != 2:
        return False
    ka, kb = next(iter(xa - common)), next(iter(xb - common))
    return ka != kb and ka[0] == "const" and kb[0] == "const"


def _assume(n, key, branch):
    """n with its top-level conditional on ``key`` resolved to ``branch`` (2 = then/none, 3 = else/some)."""
    if _is_if(n) and _ckey(n) == key:
        return _assume(n[branch], key, branch)
    if branch == 2 and _is_if(n) and _excluded_by(key, _ckey(n)):
        return _assume(n[3], key, branch)  # x == K1 holds: the branch for x == K2 cannot be taken
    if _is_if(n):
        return (n[0], n[1], _assume(n[2], key, branch), _assume(n[3], key, branch))
    return n


def _tops(n, out):
    if _is_if(n):
        out.add(_ckey(n))
        _tops(n[2], out)
        _tops(n[3], out)


def _subst_none(n, x):
    if n == x:
        return ("const", None)
    if not isinstance(n, tuple):
        return n
    return tuple(_subst_none(y, x) if isinstance(y, tuple) else y for y in n)


def _rebuild(n):
    if is_term(n) and n[0] == "bar" and len(n) == 2:
        parts = []
        for p in n[1]:
            parts += _bar_parts(p)
        return _mk_bar(parts)
    if is_term(n) and n[0] == "cat" and len(n) == 2:
        return _mk_cat(list(n[1]))
    return n


def hoist(n, budget=None):
    """Decision-tree normal form of a normalised term (bounded; returns the input unchanged when the
    tree would get too large)."""
    counter = [0]
    memo = {}

    def go(n):
        if not isinstance(n, tuple):
            return n
        if n in memo:
            return memo[n]
        counter[0] += 1
        if counter[0] > 200000:
            raise _Budget
        r = go1(n)
        memo[n] = r
        return r

    def go1(n):
        if _is_if(n):
            c = go(n[1])
            a, b = go(n[2]), go(n[3])
            if n[0] == "ifnone":
                a = go(_subst_none(a, c))
            key = (n[0], c)
            a, b = _assume(a, key, 2), _assume(b, key, 3)
            if a == b:
                return a
            tops = set()
            _tops(a, tops)
            _tops(b, tops)
            lower = [k for k in tops if repr(k) < repr(key)]
            if lower:
                k = min(lower, key=repr)
                return go((k[0], k[1], (n[0], c, _assume(a, k, 2), _assume(b, k, 2)), (n[0], c, _assume(a, k, 3), _assume(b, k, 3))))
            return (n[0], c, a, b)
        kids = tuple(go(x) if isinstance(x, tuple) else x for x in n)
        tops = set()
        for x in kids:
            if isinstance(x, tuple):
                _tops_shallow(x, tops)
        if tops and is_term(n) and (n[0] in _BINDERS or (n[0] == "op" and len(n) == 5 and n[1] == "count")):
            # a condition on a variable bound here cannot move above its binder
            tops = {k for k in tops if not _mentions_bound(k[1])}
        if not tops:
            return _rebuild(kids)
        k = min(tops, key=repr)
        then = tuple(_assume_shallow(x, k, 2) if isinstance(x, tuple) else x for x in kids)
        els = tuple(_assume_shallow(x, k, 3) if isinstance(x, tuple) else x for x in kids)
        return go((k[0], k[1], then, els))

    try:
        return _drop_bottom(go(n))
    except (_Budget, RecursionError):
        return _drop_bottom(n)


def _drop_bottom(n):
    """if(c, X, bottom) == X: the path that raises does not produce a value (done last, after the conditions are ordered)."""
    if not isinstance(n, tuple):
        return n
    n = tuple(_drop_bottom(x) if isinstance(x, tuple) else x for x in n)
    if _is_if(n):
        if n[2] == ("bottom",):
            return n[3]
        if n[3] == ("bottom",):
            return n[2]
    return n


_BINDERS = {"comp", "fold", "fn", "lambda"}


def _mentions_bound(c):
    for x in walk(c):
        if x[0] == "bv" or (x[0] in ("carried", "loopvar", "param") and isinstance(x[1], str) and x[1].startswith("#")):
            return True
    return False


def _tops_shallow(x, out):
    """Conditionals at the top of a child (children are already decision trees)."""
    if _is_if(x):
        _tops(x, out)
    elif isinstance(x, tuple) and not is_term(x):
        # plain tuples of terms (argument lists, keyword pairs)
        for y in x:
            if isinstance(y, tuple):
                _tops_shallow(y, out)


def _assume_shallow(x, key, branch):
    if _is_if(x):
        return _assume(x, key, branch)
    if isinstance(x, tuple) and not is_term(x):
        return tuple(_assume_shallow(y, key, branch) if isinstance(y, tuple) else y for y in x)
    return x
