"""Front end of the analyser: loader, resolver and the value-graph (term) builder.

Nothing in here imports ``lcm`` or ``jax``.  Every module of ``<repo>/src/lcm`` is parsed
with :mod:`ast`; function bodies are turned into *terms* -- hashable nested tuples in
which local temporaries are inlined through reaching definitions, ``if`` joins become
``phi`` nodes, loops become ``carried``/``loopout`` nodes with side tables, and names are
resolved to what they denote (parameter, closure, module function, imported object).

Rules work on terms, never on source text or positions, so that reformatting, renaming
locals, introducing temporaries or reordering keyword arguments does not change a verdict.
"""

from __future__ import annotations

import ast
import builtins
import hashlib
import os
from dataclasses import dataclass, field
from pathlib import Path

REPO = Path(os.environ.get("LCMSA_REPO", "/repo"))
PKG = "lcm"


class AnalysisError(Exception):
    """The analyser cannot decide (anchor missing, construct outside vocabulary)."""


# ======================================================================================
# Loader
# ======================================================================================


@dataclass
class Module:
    name: str
    path: Path
    source: str
    tree: ast.Module
    sha256: str
    imports: dict = field(default_factory=dict)  # local name -> dotted target


def _module_name(src_root: Path, path: Path) -> str:
    rel = path.relative_to(src_root).with_suffix("")
    parts = list(rel.parts)
    if parts[-1] == "__init__":
        parts = parts[:-1]
    return ".".join(parts)


def load_modules(repo: Path | None = None) -> dict[str, Module]:
    repo = Path(repo) if repo else REPO
    src_root = repo / "src"
    pkg_root = src_root / PKG
    if not pkg_root.is_dir():
        raise AnalysisError(f"package directory {pkg_root} not found")
    mods = {}
    for path in sorted(pkg_root.rglob("*.py")):
        if "sandbox" in path.parts:
            continue
        source = path.read_text()
        try:
            tree = ast.parse(source, filename=str(path))
        except SyntaxError as e:
            raise AnalysisError(f"{path} does not parse: {e}") from e
        name = _module_name(src_root, path)
        mods[name] = Module(
            name=name,
            path=path,
            source=source,
            tree=tree,
            sha256=hashlib.sha256(source.encode()).hexdigest(),
        )
    return mods


# canonical spelling of re-exported third-party names
_CANON = {
    "jax.vmap": "jax.vmap",
    "jax.jit": "jax.jit",
    "jax.Array": "jax.Array",
    "jax.lax": "jax.lax",
    "jax._src.numpy": "jax.numpy",
}


def canon(dotted: str) -> str:
    return _CANON.get(dotted, dotted)


# ======================================================================================
# Terms
# ======================================================================================
# A term is a tuple whose first element is a tag.  See module docstring.

UNDEF = ("undef",)


TAGS = frozenset({
    "const", "param", "glob", "func", "class", "closure", "call", "star", "attr", "sub", "slice", "binop", "unop",
    "boolop", "cmp", "tuple", "list", "set", "dict", "fstr", "phi", "ifexp", "comp", "bv", "lambda", "loopvar",
    "carried", "loopout", "mut", "setitem", "setattr", "retphi", "not", "undef", "unknown", "modvar", "in-loop",
    # normal forms (alg.py / rules_kernel.py)
    "poly", "op", "ifnone", "if", "qsel", "msg", "cap", "tvar", "basevar", "name", "bar", "cat", "seq", "bottom", "fn", "fold", "loopstate", "rep", "gtable",
})
_STR_SECOND = frozenset({"glob", "func", "class", "param", "modvar", "closure", "loopvar", "carried", "loopout", "unknown"})


def is_term(x) -> bool:
    """A term is a tuple whose first element is a known tag.  Keyword pairs ``(name, term)``
    inside call terms are NOT terms even if the keyword is spelled like a tag (``func=``)."""
    if not (isinstance(x, tuple) and x and isinstance(x[0], str) and x[0] in TAGS):
        return False
    if x[0] in _STR_SECOND:
        return len(x) >= 2 and isinstance(x[1], str)
    if x[0] == "call":
        return len(x) == 4 and isinstance(x[2], tuple) and isinstance(x[3], tuple)
    if x[0] in ("list", "tuple", "set", "dict") and len(x) == 2:
        return isinstance(x[1], tuple)
    if x[0] == "fn":
        return len(x) == 5
    return True


def const(v):
    return ("const", v)


def show(t, depth=0) -> str:  # noqa: C901, PLR0911, PLR0912
    """Python-like rendering of a term for reports and evidence."""
    if depth > 12:
        return "..."
    d = depth + 1
    if not is_term(t):
        return repr(t)
    tag = t[0]
    if tag == "const":
        return repr(t[1])
    if tag == "param":
        return t[2]
    if tag == "glob":
        return t[1]
    if tag == "func":
        return t[1]
    if tag == "class":
        return t[1]
    if tag == "closure":
        return f"<closure {t[1]}>"
    if tag == "call":
        parts = [show(a, d) for a in t[2]]
        for k, v in t[3]:
            parts.append(f"**{show(v, d)}" if k is None else f"{k}={show(v, d)}")
        return f"{show(t[1], d)}({', '.join(parts)})"
    if tag == "star":
        return f"*{show(t[1], d)}"
    if tag == "attr":
        return f"{show(t[1], d)}.{t[2]}"
    if tag == "sub":
        return f"{show(t[1], d)}[{show(t[2], d)}]"
    if tag == "slice":
        f = lambda x: "" if x is None else show(x, d)  # noqa: E731
        s = f"{f(t[1])}:{f(t[2])}"
        return s + (f":{f(t[3])}" if t[3] is not None else "")
    if tag == "binop":
        return f"({show(t[2], d)} {t[1]} {show(t[3], d)})"
    if tag == "unop":
        return f"({t[1]} {show(t[2], d)})"
    if tag == "boolop":
        return "(" + f" {t[1]} ".join(show(x, d) for x in t[2]) + ")"
    if tag == "cmp":
        out = show(t[2][0], d)
        for op, x in zip(t[1], t[2][1:], strict=True):
            out += f" {op} {show(x, d)}"
        return f"({out})"
    if tag in ("tuple", "list", "set"):
        o, c = {"tuple": "()", "list": "[]", "set": "{}"}[tag]
        return o + ", ".join(show(x, d) for x in t[1]) + c
    if tag == "dict":
        parts = [
            f"**{show(v, d)}" if k is None else f"{show(k, d)}: {show(v, d)}"
            for k, v in t[1]
        ]
        return "{" + ", ".join(parts) + "}"
    if tag == "fstr":
        return "f'" + "".join(
            p[1] if p[0] == "const" and isinstance(p[1], str) else "{" + show(p, d) + "}"
            for p in t[1]
        ) + "'"
    if tag in ("phi", "ifexp"):
        return f"({show(t[2], d)} if {show(t[1], d)} else {show(t[3], d)})"
    if tag == "comp":
        gens = " ".join(
            f"for {show(tg, d)} in {show(it, d)}"
            + "".join(f" if {show(c, d)}" for c in conds)
            for tg, it, conds in t[3]
        )
        if t[1] == "dict":
            return "{" + f"{show(t[2][0], d)}: {show(t[2][1], d)} {gens}" + "}"
        o, c = {"list": "[]", "set": "{}", "gen": "()"}[t[1]]
        return f"{o}{show(t[2], d)} {gens}{c}"
    if tag == "bv":
        return f"_b{t[1]}_{t[2]}"
    if tag == "lambda":
        return f"(lambda {', '.join(t[1])}: {show(t[2], d)})"
    if tag == "loopvar":
        return f"<{t[2]}@{t[1]}>"
    if tag == "carried":
        return f"<carried {t[2]}@{t[1]}>"
    if tag == "loopout":
        return f"<after-loop {t[2]}@{t[1]}>"
    if tag == "mut":
        return f"{show(t[1], d)}.{t[2]}!({', '.join(show(a, d) for a in t[3])})"
    if tag == "setitem":
        return f"{show(t[1], d)}[{show(t[2], d)}]:={show(t[3], d)}"
    if tag == "setattr":
        return f"{show(t[1], d)}.{t[2]}:={show(t[3], d)}"
    if tag == "retphi":
        return "ret{" + "; ".join(
            f"[{' & '.join(show(c, d) for c in cs)}] -> {show(x, d)}" for cs, x in t[1]
        ) + "}"
    if tag == "not":
        return f"(not {show(t[1], d)})"
    if tag == "undef":
        return "<undef>"
    if tag == "unknown":
        return f"<unknown {t[1]}>"
    if tag == "modvar":
        return f"{t[1]}.{t[2]}"
    return repr(t)


def walk(t):
    """Yield every sub-term of ``t`` (pre-order), including ``t``."""
    if not isinstance(t, tuple):
        return
    if is_term(t):
        yield t
    for x in t:
        if isinstance(x, tuple):
            yield from walk(x)


def kw(call, name, default=None):
    """Keyword argument ``name`` of a call term."""
    for k, v in call[3]:
        if k == name:
            return v
    return default


def arg(call, pos, name=None, default=None):
    """Positional argument ``pos`` or keyword ``name`` of a call term."""
    pargs = call[2]
    if pos is not None and pos < len(pargs) and not any(a[0] == "star" for a in pargs):
        return pargs[pos]
    if name is not None:
        return kw(call, name, default)
    return default


def callee_name(call) -> str | None:
    """Dotted name of what a call term calls (function, glob, class), if known."""
    if not is_term(call) or call[0] != "call":
        return None
    f = call[1]
    if f[0] in ("glob", "func", "class"):
        return f[1]
    return None


def is_call_to(t, *names) -> bool:
    return callee_name(t) in names


def method_call(t):
    """If t is ``recv.method(args)`` return (recv, method, call) else None."""
    if is_term(t) and t[0] == "call" and t[1][0] == "attr":
        return t[1][1], t[1][2], t
    return None


# ======================================================================================
# Program: resolver + symbolic evaluation of function bodies
# ======================================================================================


@dataclass
class FuncInfo:
    qualname: str  # e.g. lcm.simulate.simulate or lcm.entry_point.create_...<locals>.compute_ccv
    module: str
    node: ast.FunctionDef
    parent: str | None  # enclosing function qualname
    cls: str | None = None


@dataclass
class Loop:
    id: str
    node: ast.For
    iter: tuple
    target: tuple
    init: dict
    next: dict
    func: str


@dataclass
class Frame:
    """Result of symbolically executing one function body (or module body)."""

    qualname: str
    module: str
    env: dict
    ret: tuple | None = None
    returns: list = field(default_factory=list)  # [(conds, term)]
    raises: list = field(default_factory=list)  # [(conds, exc term, node)]
    effects: list = field(default_factory=list)  # expression statements: [(conds, term, node)]
    unsupported: list = field(default_factory=list)
    closures: dict = field(default_factory=dict)  # name -> [closure ids]
    stores: list = field(default_factory=list)  # [(kind, receiver term/name, node, conds)]
    locals: set = field(default_factory=set)
    params: list = field(default_factory=list)


_MUTATORS = {
    "append", "extend", "update", "pop", "setdefault", "clear", "insert", "remove",
    "sort", "add", "discard", "popitem", "reverse", "difference_update",
    "intersection_update", "symmetric_difference_update",
}

_BINOPS = {
    ast.Add: "+", ast.Sub: "-", ast.Mult: "*", ast.Div: "/", ast.FloorDiv: "//",
    ast.Mod: "%", ast.Pow: "**", ast.BitOr: "|", ast.BitAnd: "&", ast.BitXor: "^",
    ast.LShift: "<<", ast.RShift: ">>", ast.MatMult: "@",
}
_UNOPS = {ast.Not: "not", ast.USub: "-", ast.UAdd: "+", ast.Invert: "~"}
_CMPOPS = {
    ast.Eq: "==", ast.NotEq: "!=", ast.Lt: "<", ast.LtE: "<=", ast.Gt: ">", ast.GtE: ">=",
    ast.Is: "is", ast.IsNot: "is not", ast.In: "in", ast.NotIn: "not in",
}


_NEGATED_CMP = {"is": "is not", "is not": "is", "in": "not in", "not in": "in", "==": "!=", "!=": "=="}


class Program:
    def __init__(self, repo: Path | None = None):
        self.repo = Path(repo) if repo else REPO
        self.modules = load_modules(self.repo)
        self.funcs: dict[str, FuncInfo] = {}
        self.classes: dict[str, ast.ClassDef] = {}
        self.closures: dict[int, tuple] = {}  # id -> (FuncInfo, env snapshot, conds)
        self.loopvar_paths: dict = {}
        self._variant = 0
        self.variant_closures: set[int] = set()  # closures created while inlining a call (bound frames)
        self.loops: dict[str, Loop] = {}
        self.origin: dict = {}  # term -> (module, lineno)
        self._frames: dict[str, Frame] = {}
        self._modframes: dict[str, Frame] = {}
        self._closure_frames: dict[int, Frame] = {}
        self._inline_cache: dict = {}
        for m in self.modules.values():
            self._index_module(m)

    # ---------------------------------------------------------------- indexing
    def _index_module(self, m: Module) -> None:
        for node in ast.walk(m.tree):
            if isinstance(node, ast.Import):
                for a in node.names:
                    local = a.asname or a.name.split(".")[0]
                    target = a.name if a.asname else a.name.split(".")[0]
                    m.imports[local] = canon(target)
            elif isinstance(node, ast.ImportFrom):
                base = node.module or ""
                if node.level:
                    pkg = m.name.split(".")
                    if not str(m.path).endswith("__init__.py"):
                        pkg = pkg[:-1]
                    pkg = pkg[: len(pkg) - (node.level - 1)]
                    base = ".".join([*pkg, base]) if base else ".".join(pkg)
                for a in node.names:
                    m.imports[a.asname or a.name] = canon(f"{base}.{a.name}")

        def visit(body, prefix, parent, cls):
            for node in body:
                if isinstance(node, (ast.FunctionDef, ast.AsyncFunctionDef)):
                    q = f"{prefix}.{node.name}"
                    # two defs with the same name in one scope (if/else arms): number them
                    if q in self.funcs:
                        i = 2
                        while f"{q}#{i}" in self.funcs:
                            i += 1
                        q = f"{q}#{i}"
                    self.funcs[q] = FuncInfo(q, m.name, node, parent, cls)
                    node._lcmsa_q = q  # noqa: SLF001
                    visit(_all_stmts(node.body), q + ".<locals>", q, None)
                elif isinstance(node, ast.ClassDef):
                    q = f"{prefix}.{node.name}"
                    self.classes[q] = node
                    visit(node.body, q, parent, q)

        visit(_all_stmts(m.tree.body), m.name, None, None)

    def namedtuple_fields(self, class_q):
        node = self.classes.get(class_q)
        if node is None:
            return None
        if not any((isinstance(b, ast.Name) and b.id == "NamedTuple") or (isinstance(b, ast.Attribute) and b.attr == "NamedTuple")
                   for b in node.bases):
            return None
        return [n.target.id for n in node.body if isinstance(n, ast.AnnAssign) and isinstance(n.target, ast.Name)]

    def namedtuple_index(self, base, attr):
        """Position of field `attr` if `base` is known to be a NamedTuple value (the result of an lcm function that is
        annotated with / returns a NamedTuple class)."""
        if not (is_term(base) and base[0] == "call" and is_term(base[1]) and base[1][0] == "func"):
            return None
        info = self.funcs.get(base[1][1])
        if info is None:
            return None
        names = set()
        r = info.node.returns
        if isinstance(r, ast.Name):
            names.add(r.id)
        for n in ast.walk(info.node):
            if isinstance(n, ast.Return) and isinstance(n.value, ast.Call) and isinstance(n.value.func, ast.Name):
                names.add(n.value.func.id)
        for nm in sorted(names):
            for cq in (f"{info.module}.{nm}", self.modules[info.module].imports.get(nm, "")):
                fields = self.namedtuple_fields(cq)
                if fields and attr in fields:
                    return fields.index(attr)
        return None

    @staticmethod
    def splice_star_dicts(kws):
        """f(**dict(**a, k=v), m=w)  ==  f(**a, k=v, m=w);  f(**{"k": v})  ==  f(k=v)."""
        if not any(k is None and is_term(v) and ((v[0] == "dict" and any(a is not None for a, _b in v[1]))
                                                 or (v[0] == "call" and v[1] == ("glob", "builtins.dict") and not v[2]))
                   for k, v in kws):
            return kws
        named, stars = [(k, v) for k, v in kws if k is not None], []
        for k, v in kws:
            if k is not None:
                continue
            if is_term(v) and v[0] == "call" and v[1] == ("glob", "builtins.dict") and not v[2]:
                inner = Program.splice_star_dicts(v[3])
                if not ({a for a, _ in inner if a is not None} & {a for a, _ in named}):
                    named += [(a, b) for a, b in inner if a is not None]
                    stars += [(None, b) for a, b in inner if a is None]
                    continue
            if is_term(v) and v[0] == "dict" and v[1] and all(
                    a is None or (is_term(a) and a[0] == "const" and isinstance(a[1], str)) for a, _b in v[1]) \
                    and any(a is not None for a, _b in v[1]) \
                    and not ({a[1] for a, _ in v[1] if a is not None} & {a for a, _ in named}):
                # {**a, "k": v}: the mappings spliced stay star arguments, the string keys become keywords
                named += [(a[1], b) for a, b in v[1] if a is not None]
                stars += [(None, b) for a, b in v[1] if a is None]
                continue
            stars.append((k, v))
        return tuple(sorted(named, key=lambda kv: kv[0])) + tuple(stars)

    def canonical_call(self, f, pargs, kws):
        """Positional arguments of calls to known lcm functions / dataclasses are turned into
        keyword arguments, so that ``g(a, b)`` and ``g(x=a, y=b)`` are the same term."""
        kws = self.splice_star_dicts(tuple(kws))
        if is_term(f) and f[0] == "class" and not any(p[0] == "star" for p in pargs) and all(k is not None for k, _ in kws):
            fields = self.namedtuple_fields(f[1])
            if fields:
                given = dict(zip(fields, pargs, strict=False))
                given.update(dict(kws))
                if set(given) == set(fields) and len(pargs) <= len(fields):
                    return ("tuple", tuple(given[k] for k in fields))  # a NamedTuple value is the tuple of its fields
        if (is_term(f) and f[0] == "call" and f[1] == ("glob", "functools.partial") and f[2] and is_term(f[2][0])
                and f[2][0][0] in ("func", "closure", "glob", "class") and all(k is not None for k, _ in f[3])
                and all(k is not None for k, _ in kws)):
            # calling a partial object: partial(g, *a, **k)(*b, **c) == g(*a, *b, **{**k, **c})
            later = {k for k, _ in kws}
            merged = tuple(sorted([(k, v) for k, v in f[3] if k not in later] + list(kws), key=lambda kv: kv[0]))
            return self.canonical_call(f[2][0], tuple(f[2][1:]) + tuple(pargs), merged)
        names = None
        if pargs and not any(p[0] == "star" for p in pargs):
            if f[0] == "func":
                info = self.funcs.get(f[1])
                if info is not None and info.cls is None:
                    a = info.node.args
                    if not a.posonlyargs and not a.vararg:
                        names = [x.arg for x in a.args]
            elif f[0] == "class" and f[1] in self.classes:
                cnode = self.classes[f[1]]
                if not any(isinstance(n, ast.FunctionDef) and n.name == "__init__" for n in cnode.body) and any(
                        "dataclass" in ast.unparse(d) for d in cnode.decorator_list) and not any(
                        isinstance(n, ast.AnnAssign) and isinstance(n.target, ast.Name) and n.target.id == "_" for n in cnode.body):
                    names = [n.target.id for n in cnode.body if isinstance(n, ast.AnnAssign) and isinstance(n.target, ast.Name)]
        if names is not None and len(pargs) <= len(names):
            given = {k for k, _ in kws if k is not None}
            new = list(zip(names, pargs, strict=False))
            if not any(k in given for k, _ in new):
                named = sorted([(k, v) for k, v in kws if k is not None] + new, key=lambda kv: kv[0])
                return ("call", f, (), tuple(named) + tuple((k, v) for k, v in kws if k is None))
        return ("call", f, pargs, kws)

    def load_extra(self, name: str, path) -> Module:
        """Parse an additional module (the reference kernels) with the same front end."""
        path = Path(path)
        source = path.read_text()
        m = Module(name=name, path=path, source=source, tree=ast.parse(source),
                   sha256=hashlib.sha256(source.encode()).hexdigest())
        self.modules[name] = m
        self.extra = getattr(self, "extra", set()) | {name}
        self._index_module(m)
        return m

    def expand(self, t, depth=0, skip=frozenset(), loops=False):
        """Inline calls to module-level lcm / reference functions (loop-free ones).  Functions in
        ``skip`` (those that are compared on their own) stay opaque calls."""
        if not isinstance(t, tuple):
            return t
        t2 = tuple(self.expand(x, depth, skip, loops) if isinstance(x, tuple) else x for x in t)
        if is_term(t2) and t2[0] == "call" and len(t2) == 4 and any(k is None for k, _ in t2[3]):
            t2 = (t2[0], t2[1], t2[2], self.splice_star_dicts(t2[3]))  # an inlined helper may have produced f(**dict(...))
        if is_term(t2) and t2[0] == "call" and depth < 8:
            tgt = t2[1]
            if tgt[0] == "func" and tgt[1] not in skip:
                info = self.funcs.get(tgt[1])
                if info is not None and info.parent is None and info.cls is None and (loops or not any(
                    isinstance(n, (ast.For, ast.While)) for n in ast.walk(info.node)
                )) and not info.node.decorator_list:
                    r = self.inline(t2)
                    if r is not None and r[0] not in ("unknown",):
                        return self.expand(r, depth + 1, skip, loops)
            if tgt[0] == "closure" and loops and tgt[2] in self.closures:
                # a local helper (nested def / lambda) called directly where it is defined: its value, like that of a
                # module-level helper
                info = self.closures[tgt[2]][0]
                node = info.node
                if not getattr(node, "decorator_list", None) and not any(
                        isinstance(n, (ast.For, ast.While, ast.Nonlocal, ast.Global, ast.Yield, ast.YieldFrom)) for n in ast.walk(node)):
                    r = self.inline(t2)
                    if r is not None and r[0] not in ("unknown",) and not any(
                            x[0] in ("unknown", "undef") for x in walk(r)):
                        return self.expand(r, depth + 1, skip, loops)
        if is_term(t2) and t2[0] == "sub" and len(t2) == 3 and t2[2][0] == "const" and isinstance(t2[2][1], int):
            return _project(t2[1], t2[2][1], t2)
        return t2

    # ---------------------------------------------------------------- lookup helpers
    def func(self, q: str) -> FuncInfo:
        if q not in self.funcs:
            raise AnalysisError(f"anchor function {q} not found in the source tree")
        return self.funcs[q]

    def where(self, t) -> str:
        o = self.origin.get(t)
        if o is None and is_term(t):
            for s in walk(t):
                o = self.origin.get(s)
                if o:
                    break
        if o is None:
            return "?"
        return f"{self.relpath(o[0])}:{o[1]}"

    def relpath(self, module: str) -> str:
        p = self.modules[module].path
        try:
            return str(p.relative_to(self.repo))
        except ValueError:
            return str(p)

    def node_where(self, module: str, node) -> str:
        return f"{self.relpath(module)}:{getattr(node, 'lineno', '?')}"

    # ---------------------------------------------------------------- frames
    def module_frame(self, modname: str) -> Frame:
        if modname not in self._modframes:
            m = self.modules[modname]
            fr = Frame(qualname=modname, module=modname, env={})
            self._modframes[modname] = fr
            ev = _Exec(self, fr, enclosing=None, is_module=True)
            ev.block(m.tree.body)
        return self._modframes[modname]

    def frame(self, q: str, bind: dict | None = None) -> Frame:
        """Symbolically execute function ``q`` (module-level or method)."""
        if bind is None and q in self._frames:
            return self._frames[q]
        info = self.func(q)
        encl = None
        if info.parent is not None:
            raise AnalysisError(f"{q} is a nested function; use closure_frame")
        fr = Frame(qualname=q, module=info.module, env={})
        if bind is None:
            self._frames[q] = fr
        ev = _Exec(self, fr, enclosing=encl)
        ev.bind_params(info.node, bind)
        ev.block(info.node.body)
        ev.finish()
        if bind is None and info.module not in getattr(self, "extra", set()):
            self._see_through_helpers(fr)
        return fr

    def _see_through_helpers(self, fr):
        """Calls of lcm helpers that have no reviewed form of their own (e.g. a helper that a
        refactoring extracted) are replaced by their inlined value, and projections of tuple results
        are resolved, so that rules navigate the same value graph whether or not a block of code
        lives in a helper."""
        try:
            from lcmsa.rules_kernel import covered_functions

            skip = covered_functions(self)
        except Exception:  # noqa: BLE001
            return
        skip = skip | {fr.qualname}

        def E(t):
            # helpers with loops are inlined too: their loops are registered as variants (id@n) and can be
            # followed from the after-loop values they return
            return self.expand(t, skip=skip, loops=True)

        for k in list(fr.env):
            fr.env[k] = E(fr.env[k])
        if fr.ret is not None:
            fr.ret = E(fr.ret)
        fr.returns = [(tuple(E(c) for c in cs), E(t)) for cs, t in fr.returns]
        fr.raises = [(tuple(E(c) for c in cs), E(t), n) for cs, t, n in fr.raises]
        # a helper called for its effect (typically an extracted guard: `_fail_if_duplicates(names)`): its raise sites and
        # its own effect statements become raise sites / effects of the caller, under the caller's path conditions
        new_effects, merged = [], False
        for cs, t, n in fr.effects:
            hfr = self._helper_frame(t, skip)
            if hfr is not None and (hfr.stores or any(v != ("param", hfr.qualname, p) and is_term(v) and v[0] in ("mut", "setattr", "setitem", "call")
                                                      and v[0] != "call" for p, v in hfr.env.items() if p in hfr.params)):
                hfr = None  # works in place on its arguments: stays an opaque effect of the caller
            if hfr is None or hfr.unsupported:
                new_effects.append((tuple(E(c) for c in cs), E(t), n))
                continue
            merged = True
            cs2 = tuple(E(c) for c in cs)
            for hc, exc, _hn in hfr.raises:
                fr.raises.append((cs2 + tuple(E(c) for c in hc), E(exc), n))
            for hc, ht, _hn in hfr.effects:
                new_effects.append((cs2 + tuple(E(c) for c in hc), E(ht), n))
        fr.effects = new_effects
        if merged:
            fr.raises.sort(key=lambda r: getattr(r[2], "lineno", 0))
        for lid, lp in list(self.loops.items()):
            if lp.func == fr.qualname and "@" not in lid:
                lp.iter = E(lp.iter)
                lp.init = {k: E(v) for k, v in lp.init.items()}
                lp.next = {k: E(v) for k, v in lp.next.items()}
        # the closures defined in this frame captured the same values
        for cids in fr.closures.values():
            for cid in cids:
                info, snapshot, conds = self.closures[cid]
                self.closures[cid] = (info, {k: E(v) for k, v in snapshot.items()}, tuple(E(c) for c in conds))
                self._closure_frames.pop(cid, None)

    def _helper_frame(self, call, skip):
        """Frame of a module-level lcm helper called by `call` (arguments bound), or None."""
        if not (is_term(call) and call[0] == "call" and is_term(call[1]) and call[1][0] == "func" and call[1][1] not in skip):
            return None
        info = self.funcs.get(call[1][1])
        if info is None or info.parent is not None or info.cls is not None or info.node.decorator_list \
                or not info.qualname.startswith("lcm."):
            return None
        bind = _bind_args(info.node, call[2], call[3], False)
        if bind is None:
            return None
        key = ("frame", call[1], call[2], call[3])
        if key in self._inline_cache:
            return self._inline_cache[key]
        self._inline_cache[key] = None
        hfr = self.frame(call[1][1], bind=bind)
        self._inline_cache[key] = hfr
        return hfr

    def closure_frame(self, cid: int, bind: dict | None = None) -> Frame:
        if bind is None and cid in self._closure_frames:
            return self._closure_frames[cid]
        info, snapshot, conds = self.closures[cid]
        if conds:
            snapshot = {k: specialise(v, conds) for k, v in snapshot.items()}
        fr = Frame(qualname=info.qualname, module=info.module, env={})
        if bind is None:
            self._closure_frames[cid] = fr
        ev = _Exec(self, fr, enclosing=snapshot)
        ev.from_variant = cid in self.variant_closures or bind is not None
        ev.bind_params(info.node, bind)
        ev.block(info.node.body)
        ev.finish()
        if bind is None and info.module not in getattr(self, "extra", set()) and cid not in self.variant_closures:
            self._see_through_helpers(fr)  # helpers called inside a nested function are seen through as well
        return fr

    # ---------------------------------------------------------------- function values
    def strip_wrappers(self, t):
        """Peel decorators / higher-order wrappers that do not change what is computed.

        jax.jit(f) -> f ; functools.wraps(g)(f) -> f ; cast(T, f) -> f ;
        with_signature(args=..)(f) -> f ; allow_args(f)/allow_only_kwargs(f) -> f.
        """
        while is_term(t) and t[0] == "call":
            name = callee_name(t)
            if name in ("jax.jit", "typing.cast", "lcm.functools.allow_args",
                        "lcm.functools.allow_only_kwargs"):
                t = t[2][-1] if t[2] else t
                continue
            inner = t[1]
            if is_term(inner) and inner[0] == "call" and callee_name(inner) in (
                "functools.wraps", "dags.signature.with_signature",
            ) and len(t[2]) == 1:
                t = t[2][0]
                continue
            break
        return t

    def resolve_callable(self, t):
        """Return ('func', q) / ('closure', q, id) for a function-valued term, or None."""
        t = self.strip_wrappers(t)
        if is_term(t) and t[0] in ("func", "closure"):
            return t
        return None

    def inline(self, call, depth=0):
        """Return term of a call to an lcm function with arguments substituted."""
        if not (is_term(call) and call[0] == "call"):
            return None
        target = self.resolve_callable(call[1])
        if target is None:
            return None
        key = (target, call[2], call[3])
        if key in self._inline_cache:
            return self._inline_cache[key]
        if target[0] == "func":
            info = self.funcs.get(target[1])
        else:
            info = self.closures[target[2]][0]
        if info is None:
            return None
        bind = _bind_args(info.node, call[2], call[3], info.cls is not None)
        if bind is None:
            return None
        self._inline_cache[key] = ("unknown", "recursion")
        fr = (
            self.frame(target[1], bind=bind)
            if target[0] == "func"
            else self.closure_frame(target[2], bind=bind)
        )
        self._inline_cache[key] = fr.ret
        return fr.ret


def specialise(t, conds):
    """Resolve phi nodes whose condition is decided by the path conditions ``conds``."""
    if not isinstance(t, tuple):
        return t
    if is_term(t) and t[0] in ("phi", "ifexp"):
        c = t[1]
        if c in conds:
            return specialise(t[2], conds)
        if ("not", c) in conds or ("unop", "not", c) in conds:
            return specialise(t[3], conds)
        if c[0] == "not" and c[1] in conds:
            return specialise(t[3], conds)
    return tuple(specialise(x, conds) if isinstance(x, tuple) else x for x in t)


_BOTTOM = ("bottom",)


def _project(x, i, default):
    """(a, b, c)[i] -> element; phi(c, T1, T2)[i] -> phi(c, T1[i], T2[i])."""
    if is_term(x) and x[0] == "tuple" and len(x) == 2 and 0 <= i < len(x[1]) and not any(e[0] == "star" for e in x[1]):
        return x[1][i]
    if is_term(x) and x[0] in ("phi", "ifexp") and len(x) == 4:
        a, b = _project(x[2], i, None), _project(x[3], i, None)
        if a is not None and b is not None:
            return (x[0], x[1], a, b)
    return default


def mk_phi(c, a, b, tag="phi"):
    """phi with a positive condition: phi(not x, a, b) == phi(x, b, a)."""
    while is_term(c) and ((c[0] == "not" and len(c) == 2) or (c[0] == "unop" and c[1] == "not")):
        c = c[1] if c[0] == "not" else c[2]
        a, b = b, a
    return (tag, c, a, b)


def _build_return(rets, depth=0):
    """Nested phi over structured early returns; paths that end in a raise are bottom, and
    phi(c, X, bottom) == X.  None if the returns are not structured by if-chains."""
    if any(any(c[0] == "in-loop" for c in conds) for conds, _t in rets):
        return None
    if len(rets) == 1:
        return rets[0][1]
    if not all(len(conds) > depth for conds, _t in rets):
        # a return that is not under the condition at this depth (e.g. the final fall-through
        # return written after `if c: return A`) carries ("not", c) in its path; anything else
        # is outside the vocabulary
        return None
    c = rets[0][0][depth]
    then = [r for r in rets if r[0][depth] == c]
    neg = ("not", c) if c[0] != "not" else c[1]
    els = [r for r in rets if r[0][depth] == neg]
    if len(then) + len(els) != len(rets):
        return None
    a = _build_return(then, depth + 1)
    if a is None:
        return None
    if not els:
        return a
    b = _build_return(els, depth + 1)
    if b is None:
        return None
    return mk_phi(c, a, b)


def _all_stmts(body):
    """Statements of a body including those nested in if/for/with/try blocks."""
    out = []
    for s in body:
        out.append(s)
        for fld in ("body", "orelse", "finalbody"):
            sub = getattr(s, fld, None)
            if isinstance(sub, list) and not isinstance(
                s, (ast.FunctionDef, ast.AsyncFunctionDef, ast.ClassDef)
            ):
                out.extend(_all_stmts(sub))
        if isinstance(s, ast.Try):
            for h in s.handlers:
                out.extend(_all_stmts(h.body))
        if isinstance(s, ast.Match):
            for c in s.cases:
                out.extend(_all_stmts(c.body))
    return out


def _bind_args(fnode, pargs, kwargs, is_method):
    """Map parameter names of ``fnode`` to argument terms; None if not statically clear."""
    a = fnode.args
    names = [x.arg for x in a.posonlyargs + a.args]
    if any(p[0] == "star" for p in pargs) or any(k is None for k, _ in kwargs):
        # keep simple: only bind what is explicit; rest stays a parameter
        pargs = tuple(p for p in pargs if p[0] != "star")
    bind = {}
    for n, v in zip(names, pargs, strict=False):
        bind[n] = v
    if len(pargs) > len(names) and not a.vararg:
        return None
    if a.vararg and len(pargs) > len(names):
        bind[a.vararg.arg] = ("tuple", tuple(pargs[len(names):]))
    allnames = set(names) | {x.arg for x in a.kwonlyargs}
    extra = []
    for k, v in kwargs:
        if k is None:
            continue
        if k in allnames:
            bind[k] = v
        else:
            extra.append((const(k), v))
    if a.kwarg and extra:
        bind[a.kwarg.arg] = ("dict", tuple(extra))
    # defaults
    pos_defaults = dict(zip(names[len(names) - len(a.defaults):], a.defaults, strict=False))
    for n, dnode in pos_defaults.items():
        if n not in bind and isinstance(dnode, ast.Constant):
            bind[n] = const(dnode.value)
    for x, dnode in zip(a.kwonlyargs, a.kw_defaults, strict=True):
        if x.arg not in bind and isinstance(dnode, ast.Constant):
            bind[x.arg] = const(dnode.value)
    return bind


def _assigned_names(stmts, mutations=True) -> set[str]:  # noqa: FBT002
    """Names (re)bound -- and, if ``mutations``, mutated in place -- by statements."""
    out = set()

    def tgt(t):
        if isinstance(t, ast.Name):
            out.add(t.id)
        elif isinstance(t, (ast.Tuple, ast.List)):
            for e in t.elts:
                tgt(e)
        elif isinstance(t, ast.Starred):
            tgt(t.value)
        elif isinstance(t, (ast.Subscript, ast.Attribute)) and mutations:
            base = t
            while isinstance(base, (ast.Subscript, ast.Attribute)):
                base = base.value
            if isinstance(base, ast.Name):
                out.add(base.id)

    def visit(s):
        if isinstance(s, (ast.FunctionDef, ast.AsyncFunctionDef, ast.ClassDef)):
            out.add(s.name)
            return
        if isinstance(s, ast.Assign):
            for t in s.targets:
                tgt(t)
        elif isinstance(s, (ast.AugAssign, ast.AnnAssign)):
            tgt(s.target)
        elif isinstance(s, ast.For):
            tgt(s.target)
        elif isinstance(s, (ast.With,)):
            for it in s.items:
                if it.optional_vars is not None:
                    tgt(it.optional_vars)
        elif isinstance(s, (ast.Import, ast.ImportFrom)):
            for a in s.names:
                out.add((a.asname or a.name).split(".")[0])
        elif isinstance(s, ast.Expr) and mutations:
            v = s.value
            if (
                isinstance(v, ast.Call)
                and isinstance(v.func, ast.Attribute)
                and v.func.attr in _MUTATORS
            ):
                base = v.func.value
                while isinstance(base, (ast.Subscript, ast.Attribute)):
                    base = base.value
                if isinstance(base, ast.Name):
                    out.add(base.id)
        for n in ast.walk(s):
            if isinstance(n, ast.NamedExpr):
                tgt(n.target)
        for fld in ("body", "orelse", "finalbody"):
            sub = getattr(s, fld, None)
            if isinstance(sub, list):
                for x in sub:
                    visit(x)
        if isinstance(s, ast.Try):
            for h in s.handlers:
                for x in h.body:
                    visit(x)
        if isinstance(s, ast.Match):
            for c in s.cases:
                for x in c.body:
                    visit(x)

    for s in stmts:
        visit(s)
    return out


class _Exec:
    """Symbolic executor for one function/module body."""

    def __init__(self, prog: Program, frame: Frame, enclosing: dict | None, *,
                 is_module: bool = False):
        self.p = prog
        self.fr = frame
        self.env = frame.env
        self.enclosing = enclosing  # env snapshot of the defining scope (closures)
        self.is_module = is_module
        self.mod = prog.modules[frame.module]
        self.conds: list = []
        self.locals: set[str] = set()
        self.loop_counter = 0
        self.bv_depth = 0
        self.comp_scopes: list[dict] = []
        self.dead = False
        self.variant = ""
        self.loop_stack: list[list] = []  # per open loop: [(path conds, env at a `continue`)]

    # ------------------------------------------------------------ set up
    def bind_params(self, fnode, bind):
        if bind is not None:
            self.p._variant += 1  # noqa: SLF001
            self.variant = f"@{self.p._variant}"  # noqa: SLF001
        a = fnode.args
        q = self.fr.qualname
        allp = [x.arg for x in a.posonlyargs + a.args + a.kwonlyargs]
        if a.vararg:
            allp.append(a.vararg.arg)
        if a.kwarg:
            allp.append(a.kwarg.arg)
        for n in allp:
            self.env[n] = (bind or {}).get(n, ("param", q, n))
        self.locals = set(allp) | _assigned_names(fnode.body, mutations=False)
        self.fr.params = list(allp)
        # global / nonlocal declarations make names non-local
        for s in _all_stmts(fnode.body):
            if isinstance(s, (ast.Global, ast.Nonlocal)):
                self.locals -= set(s.names)
                self.fr.stores.append(("global-decl", tuple(s.names), s, ()))
        self.fr.locals = set(self.locals)

    def finish(self):
        rets = self.fr.returns
        built = _build_return(rets) if len(rets) > 1 else None
        if built is not None:
            self.fr.ret = built
        elif not rets:
            self.fr.ret = const(None)
        elif len(rets) == 1:
            self.fr.ret = rets[0][1]
        elif (
            len(rets) == 2
            and len(rets[0][0]) >= 1
            and rets[1][0][: len(rets[0][0]) - 1] == rets[0][0][:-1]
            and rets[1][0][len(rets[0][0]) - 1:] in ((("not", rets[0][0][-1]),), ())
        ):
            self.fr.ret = mk_phi(rets[0][0][-1], rets[0][1], rets[1][1])
        else:
            self.fr.ret = ("retphi", tuple((tuple(c), t) for c, t in rets))

    # ------------------------------------------------------------ names
    def lookup(self, name: str, node=None):
        for sc in reversed(self.comp_scopes):
            if name in sc:
                return sc[name]
        if self.is_module or name in self.locals:
            if name in self.env:
                return self.env[name]
            if not self.is_module:
                return UNDEF
        if self.enclosing is not None and name in self.enclosing:
            return self.enclosing[name]
        return self.lookup_global(name)

    def lookup_global(self, name: str):
        m = self.mod
        if self.is_module and name in self.env:
            return self.env[name]
        if not self.is_module:
            mf = self.p.module_frame(m.name)
            if name in mf.env:
                return mf.env[name]
        if name in m.imports:
            return self.resolve_dotted(m.imports[name])
        if hasattr(builtins, name):
            return ("glob", f"builtins.{name}")
        return ("unknown", f"name {name}")

    def resolve_dotted(self, dotted: str):
        """An imported dotted target: lcm function / class / module var, or external."""
        if dotted == PKG or dotted.startswith(PKG + "."):
            modname, _, attr = dotted.rpartition(".")
            if modname in self.p.modules and modname != self.fr.module:
                mf = self.p.module_frame(modname)
                if attr in mf.env:
                    return mf.env[attr]
                # import cycle (frame under construction): plain defs need no evaluation
                for n in self.p.modules[modname].tree.body:
                    if isinstance(n, ast.ClassDef) and n.name == attr:
                        return ("class", f"{modname}.{attr}")
                    if isinstance(n, ast.FunctionDef) and n.name == attr and not n.decorator_list:
                        return ("func", f"{modname}.{attr}")
            if dotted in self.p.modules:
                return ("glob", dotted)
            if modname in self.p.modules:
                return ("unknown", f"{dotted} not defined")
        return ("glob", canon(dotted))

    # ------------------------------------------------------------ statements
    def block(self, stmts):
        pushed = 0
        status = "fall"
        for s in stmts:
            if self.dead:
                break
            st, npush = self.stmt(s)
            pushed += npush
            if st != "fall":
                status = st
                break
        for _ in range(pushed):
            self.conds.pop()
        return status

    def note(self, t, node):
        if is_term(t) and t not in self.p.origin and hasattr(node, "lineno"):
            self.p.origin[t] = (self.fr.module, node.lineno)
        return t

    def stmt(self, s):  # noqa: C901, PLR0911, PLR0912, PLR0915
        """Execute one statement. Returns (status, number of path conditions pushed)."""
        if isinstance(s, ast.Expr):
            if isinstance(s.value, ast.Constant):
                return "fall", 0  # docstring
            t = self.expr(s.value)
            if (is_term(t) and t[0] == "call" and t[1] == ("glob", "functools.update_wrapper") and len(t[2]) == 2 and not t[3]
                    and isinstance(s.value.args[0], ast.Name) and not self.conds):
                # functools.update_wrapper(w, f)  ==  w = functools.wraps(f)(w)
                name = s.value.args[0].id
                v = ("call", ("call", ("glob", "functools.wraps"), (t[2][1],), ()), (t[2][0],), ())
                self.note(v, s)
                self.env[name] = v
                return "fall", 0
            self.fr.effects.append((tuple(self.conds), t, s))
            mc = method_call(t)
            if mc and mc[1] in _MUTATORS:
                self.mutate(s.value.func.value, mc, s)
            return "fall", 0
        if isinstance(s, ast.Assign):
            v = self.expr(s.value)
            for tg in s.targets:
                self.assign(tg, v, s)
            return "fall", 0
        if isinstance(s, ast.AnnAssign):
            if s.value is not None:
                self.assign(s.target, self.expr(s.value), s)
            return "fall", 0
        if isinstance(s, ast.AugAssign):
            cur = self.expr(_load(s.target))
            v = ("binop", _BINOPS.get(type(s.op), "?"), cur, self.expr(s.value))
            self.note(v, s)
            if not isinstance(s.target, ast.Name):
                self.fr.stores.append(("augstore", self.expr(_load(s.target)), s, tuple(self.conds)))
            self.assign(s.target, v, s, aug=True)
            return "fall", 0
        if isinstance(s, ast.Return):
            t = self.expr(s.value) if s.value is not None else const(None)
            self.fr.returns.append((tuple(self.conds), t))
            return "ret", 0
        if isinstance(s, ast.Raise):
            t = self.expr(s.exc) if s.exc is not None else const(None)
            self.fr.raises.append((tuple(self.conds), t, s))
            return "raise", 0
        if isinstance(s, ast.If):
            return self.if_(s)
        if isinstance(s, ast.Match):
            chain = _match_as_if(s)
            if chain is not None:
                if not isinstance(chain, ast.If):
                    chain = ast.fix_missing_locations(ast.copy_location(ast.If(test=ast.Constant(True), body=chain, orelse=[]), s))
                return self.stmt(chain)
        if isinstance(s, ast.For):
            self.for_(s)
            return "fall", 0
        if isinstance(s, (ast.FunctionDef, ast.AsyncFunctionDef)):
            self.funcdef(s)
            return "fall", 0
        if isinstance(s, ast.ClassDef):
            q = f"{self.fr.qualname}.{s.name}" if self.is_module else s.name
            t = ("class", q)
            for d in reversed(s.decorator_list):
                dt = self.expr(d)
                if callee_name(dt) == "dataclasses.dataclass" or dt == ("glob", "dataclasses.dataclass"):
                    continue  # dataclass returns the class itself
                t = ("call", dt, (t,), ())
            self.env[s.name] = t
            return "fall", 0
        if isinstance(s, (ast.Import, ast.ImportFrom)):
            for a in s.names:
                local = (a.asname or a.name).split(".")[0] if isinstance(s, ast.Import) else (a.asname or a.name)
                if local in self.mod.imports:
                    self.env[local] = self.resolve_dotted(self.mod.imports[local]) if self.is_module else self.resolve_dotted(self.mod.imports[local])
            return "fall", 0
        if isinstance(s, (ast.Pass, ast.Global, ast.Nonlocal)):
            return "fall", 0
        if isinstance(s, ast.Continue) and self.loop_stack:
            # the environment at this point is one of the ways an iteration can end
            self.loop_stack[-1].append((tuple(self.conds), dict(self.env)))
            return "cont", 0
        if isinstance(s, ast.Assert):
            self.fr.effects.append((tuple(self.conds), ("call", ("glob", "builtins.assert"), (self.expr(s.test),), ()), s))
            return "fall", 0
        if isinstance(s, ast.Delete):
            for tg in s.targets:
                self.fr.stores.append(("del", self.expr(_load(tg)) if not isinstance(tg, ast.Name) else ("name", tg.id), s, tuple(self.conds)))
                if isinstance(tg, ast.Name):
                    self.env[tg.id] = UNDEF
            return "fall", 0
        if isinstance(s, ast.Try):
            # only the optional-import idiom occurs; execute body, note handlers
            self.fr.unsupported.append(("try", s))
            self.block(s.body)
            for n in sorted(_assigned_names(s.handlers and [x for h in s.handlers for x in h.body] or [])):
                self.env[n] = ("unknown", "assigned in except handler")
            self.block(s.orelse)
            self.block(s.finalbody)
            return "fall", 0
        # while / with / match / ... : outside vocabulary
        self.fr.unsupported.append((type(s).__name__, s))
        for n in sorted(_assigned_names([s])):
            self.env[n] = ("unknown", f"assigned in {type(s).__name__}")
        return "fall", 0

    def mutate(self, recv_node, mc, s):
        recv, meth, call = mc
        base = recv_node
        while isinstance(base, (ast.Subscript, ast.Attribute)):
            base = base.value
        self.fr.stores.append(("mutcall", recv, s, tuple(self.conds), meth))
        if isinstance(recv_node, ast.Name) and (self.is_module or recv_node.id in self.locals):
            new = ("mut", recv, meth, call[2], call[3])
            self.note(new, s)
            self.env[recv_node.id] = new

    def assign(self, tg, v, s, aug=False):  # noqa: FBT002
        if isinstance(tg, ast.Name):
            self.env[tg.id] = v
            if not self.is_module and tg.id not in self.locals:
                self.fr.stores.append(("global-store", ("name", tg.id), s, tuple(self.conds)))
        elif isinstance(tg, (ast.Tuple, ast.List)):
            starred = any(isinstance(e, ast.Starred) for e in tg.elts)
            for i, e in enumerate(tg.elts):
                if starred:
                    self.assign(e.value if isinstance(e, ast.Starred) else e, ("unknown", "starred unpack"), s)
                elif v[0] in ("tuple", "list") and len(v[1]) == len(tg.elts) and not any(x[0] == "star" for x in v[1]):
                    self.assign(e, v[1][i], s)
                else:
                    self.assign(e, self.note(("sub", v, const(i)), s), s)
        elif isinstance(tg, ast.Subscript):
            recv = self.expr(tg.value)
            idx = self.expr(tg.slice)
            if not aug:
                self.fr.stores.append(("setitem", recv, s, tuple(self.conds)))
            if isinstance(tg.value, ast.Name) and (self.is_module or tg.value.id in self.locals):
                self.env[tg.value.id] = self.note(("setitem", recv, idx, v), s)
        elif isinstance(tg, ast.Attribute):
            recv = self.expr(tg.value)
            if not aug:
                self.fr.stores.append(("setattr", recv, s, tuple(self.conds), tg.attr))
            if isinstance(tg.value, ast.Name) and (self.is_module or tg.value.id in self.locals):
                self.env[tg.value.id] = self.note(("setattr", recv, tg.attr, v), s)
        elif isinstance(tg, ast.Starred):
            self.assign(tg.value, ("unknown", "starred"), s)

    def if_(self, s: ast.If):
        c = self.expr(s.test)
        base = dict(self.env)
        # then: values that were merged under the same condition earlier are resolved
        spec = any(is_term(v) and v[0] in ("phi", "ifexp") for v in base.values())
        spec_then = spec_else = base
        if spec:
            spec_then = {k: specialise(v, (c,)) for k, v in base.items()}
            spec_else = {k: specialise(v, (("not", c),)) for k, v in base.items()}
            self.env.clear()
            self.env.update(spec_then)
        self.conds.append(c)
        st1 = self.block(s.body)
        self.conds.pop()
        env1 = dict(self.env)
        # else
        self.env.clear()
        self.env.update(spec_else)
        self.conds.append(("not", c))
        st2 = self.block(s.orelse)
        self.conds.pop()
        env2 = dict(self.env)
        self.env.clear()
        if st1 != "fall" and st2 != "fall":
            self.env.update(base)
            self.dead = False
            return ("ret" if "ret" in (st1, st2) else "cont" if "cont" in (st1, st2) else "raise"), 0
        if st1 != "fall":
            self.env.update(env2)
            self.conds.append(("not", c))
            return "fall", 1
        if st2 != "fall":
            self.env.update(env1)
            self.conds.append(c)
            return "fall", 1
        for k in sorted(set(env1) | set(env2)):
            a, b = env1.get(k, UNDEF), env2.get(k, UNDEF)
            if k in base and a == spec_then.get(k) and b == spec_else.get(k):
                self.env[k] = base[k]  # not touched by either branch
            else:
                self.env[k] = a if a == b else mk_phi(c, a, b)
        return "fall", 0

    def for_(self, s: ast.For):
        self.loop_counter += 1
        lid = f"{self.fr.qualname}:loop{self.loop_counter}{self.variant}"
        it = self.expr(s.iter)
        assigned = _assigned_names(s.body) | _assigned_names([ast.Assign(targets=[s.target], value=ast.Constant(0))])
        target_names = _assigned_names([ast.Assign(targets=[s.target], value=ast.Constant(0))])
        init = {}
        for n in sorted(assigned - target_names):
            if self.is_module or n in self.locals:
                init[n] = self.env.get(n, UNDEF)
                self.env[n] = ("carried", lid, n)
        # loop target
        self.bind_target(s.target, lid, ())
        loop = Loop(id=lid, node=s, iter=it, target=self.expr(_load(s.target)), init=init,
                    next={}, func=self.fr.qualname)
        self.p.loops[lid] = loop
        self.conds.append(("in-loop", lid))
        depth0 = len(self.conds)
        self.loop_stack.append([])
        self.block(s.body)
        conts = self.loop_stack.pop()
        self.conds.pop()
        # merge the environments of `continue` exits with the fall-through end of the body
        for cconds, cenv in reversed(conts):
            rel = [c for c in cconds[depth0:]]
            for n in init:
                a, b = cenv.get(n, UNDEF), self.env.get(n, UNDEF)
                if a != b:
                    v = a
                    for c in reversed(rel):
                        v = mk_phi(c, v, b)
                    self.env[n] = v if rel else a
        for n in init:
            loop.next[n] = self.env.get(n, UNDEF)
            if loop.next[n] == ("carried", lid, n):
                # not actually changed
                self.env[n] = init[n]
            else:
                self.env[n] = ("loopout", lid, n)
        for n in sorted(target_names):
            self.env[n] = ("loopout", lid, n)
        if s.orelse:
            self.block(s.orelse)

    def bind_target(self, tg, lid, path):
        if isinstance(tg, ast.Name):
            self.env[tg.id] = ("loopvar", lid, tg.id)
            self.p.loopvar_paths[(lid, tg.id)] = path
        elif isinstance(tg, (ast.Tuple, ast.List)):
            for i, e in enumerate(tg.elts):
                self.bind_target(e, lid, (*path, i))

    def funcdef(self, s):
        q = getattr(s, "_lcmsa_q", None)
        if self.is_module or (self.fr.qualname in self.p.classes):
            t = ("func", q)
        else:
            info = self.p.funcs.get(q)
            if info is None:
                info = FuncInfo(q or s.name, self.fr.module, s, self.fr.qualname)
            cid = len(self.p.closures) + 1
            snapshot = dict(self.enclosing or {})
            snapshot.update(self.env)
            # the closure can see itself and names defined later only through the
            # snapshot; that is enough for this code base
            self.p.closures[cid] = (info, snapshot, tuple(self.conds))
            if self.variant or (self.enclosing is not None and getattr(self, "from_variant", False)):
                self.p.variant_closures.add(cid)
            t = ("closure", q or s.name, cid)
            self.fr.closures.setdefault(s.name, []).append(cid)
        self.note(t, s)
        for d in reversed(s.decorator_list):
            t = self.note(("call", self.expr(d), (t,), ()), s)
        self.env[s.name] = t

    # ------------------------------------------------------------ expressions
    def expr(self, e):  # noqa: C901, PLR0911, PLR0912
        t = self._expr(e)
        return self.note(t, e)

    def _expr(self, e):  # noqa: C901, PLR0911, PLR0912, PLR0915
        if e is None:
            return const(None)
        if isinstance(e, ast.Constant):
            return const(e.value)
        if isinstance(e, ast.Name):
            return self.lookup(e.id, e)
        if isinstance(e, ast.Attribute):
            base = self.expr(e.value)
            if base[0] == "glob":
                dotted = f"{base[1]}.{e.attr}"
                if dotted == PKG or dotted.startswith(PKG + "."):
                    return self.resolve_dotted(dotted)
                return ("glob", canon(dotted))
            idx = self.p.namedtuple_index(base, e.attr)
            if idx is not None:
                # field of a NamedTuple value == position in the tuple
                return _project(base, idx, ("sub", base, ("const", idx)))
            return ("attr", base, e.attr)
        if isinstance(e, ast.Call):
            f = self.expr(e.func)
            pargs = tuple(
                ("star", self.expr(a.value)) if isinstance(a, ast.Starred) else self.expr(a)
                for a in e.args
            )
            kws = tuple(sorted(
                ((k.arg, self.expr(k.value)) for k in e.keywords if k.arg is not None),
                key=lambda kv: kv[0],
            )) + tuple((None, self.expr(k.value)) for k in e.keywords if k.arg is None)
            return self.p.canonical_call(f, pargs, kws)
        if isinstance(e, ast.Subscript):
            return ("sub", self.expr(e.value), self.expr(e.slice))
        if isinstance(e, ast.Slice):
            f = lambda x: None if x is None else self.expr(x)  # noqa: E731
            return ("slice", f(e.lower), f(e.upper), f(e.step))
        if isinstance(e, ast.BinOp):
            return ("binop", _BINOPS.get(type(e.op), "?"), self.expr(e.left), self.expr(e.right))
        if isinstance(e, ast.UnaryOp):
            inner = self.expr(e.operand)
            if isinstance(e.op, ast.Not) and inner[0] == "cmp" and len(inner[1]) == 1 and inner[1][0] in _NEGATED_CMP:
                return ("cmp", (_NEGATED_CMP[inner[1][0]],), inner[2])  # not (a is b)  ==  a is not b
            if isinstance(e.op, ast.Not) and inner[0] == "unop" and inner[1] == "not":
                pass  # not not x is bool(x): keep as written
            return ("unop", _UNOPS.get(type(e.op), "?"), inner)
        if isinstance(e, ast.BoolOp):
            return ("boolop", "and" if isinstance(e.op, ast.And) else "or",
                    tuple(self.expr(v) for v in e.values))
        if isinstance(e, ast.Compare):
            return ("cmp", tuple(_CMPOPS[type(o)] for o in e.ops),
                    tuple(self.expr(x) for x in [e.left, *e.comparators]))
        if isinstance(e, (ast.Tuple, ast.List)) and len(e.elts) == 1 and isinstance(e.elts[0], ast.Starred) \
                and isinstance(getattr(e, "ctx", None), ast.Load):
            # [*x] == list(x), (*x,) == tuple(x)
            name = "builtins.list" if isinstance(e, ast.List) else "builtins.tuple"
            return ("call", ("glob", name), (self.expr(e.elts[0].value),), ())
        if isinstance(e, (ast.Tuple, ast.List, ast.Set)):
            tag = {ast.Tuple: "tuple", ast.List: "list", ast.Set: "set"}[type(e)]
            return (tag, tuple(
                ("star", self.expr(x.value)) if isinstance(x, ast.Starred) else self.expr(x)
                for x in e.elts
            ))
        if isinstance(e, ast.Dict):
            return ("dict", tuple(
                (None if k is None else self.expr(k), self.expr(v))
                for k, v in zip(e.keys, e.values, strict=True)
            ))
        if isinstance(e, ast.JoinedStr):
            parts = []
            for v in e.values:
                if isinstance(v, ast.Constant):
                    parts.append(const(v.value))
                else:
                    parts.append(self.expr(v.value))
            if all(is_term(x) and x[0] == "const" and isinstance(x[1], str) for x in parts) and not any(
                    isinstance(v, ast.FormattedValue) and (v.conversion != -1 or v.format_spec is not None) for v in e.values):
                return const("".join(x[1] for x in parts))  # every piece is a known string: the string itself
            return ("fstr", tuple(parts))
        if isinstance(e, ast.FormattedValue):
            return self.expr(e.value)
        if isinstance(e, ast.IfExp):
            return mk_phi(self.expr(e.test), self.expr(e.body), self.expr(e.orelse), "ifexp")
        if isinstance(e, (ast.ListComp, ast.SetComp, ast.GeneratorExp, ast.DictComp)):
            return self.comp(e)
        if isinstance(e, ast.Lambda):
            a = e.args
            names = tuple(x.arg for x in a.posonlyargs + a.args + a.kwonlyargs)
            self.bv_depth += 1
            sc = {n: ("bv", self.bv_depth, i) for i, n in enumerate(names)}
            self.comp_scopes.append(sc)
            body = self.expr(e.body)
            self.comp_scopes.pop()
            self.bv_depth -= 1
            r = ("lambda", tuple(f"_b{self.bv_depth + 1}_{i}" for i in range(len(names))), body)
            return canon_bv(r) if self.bv_depth == 0 else r
        if isinstance(e, ast.NamedExpr):
            v = self.expr(e.value)
            self.assign(e.target, v, e)
            return v
        if isinstance(e, ast.Starred):
            return ("star", self.expr(e.value))
        return ("unknown", type(e).__name__)

    def comp(self, e):
        kind = {ast.ListComp: "list", ast.SetComp: "set", ast.GeneratorExp: "gen",
                ast.DictComp: "dict"}[type(e)]
        self.bv_depth += 1
        # bound variables get a unique id while the expression is under construction (a comprehension value that is
        # inlined from an enclosing scope must not capture them); the finished outermost binder is renumbered by
        # nesting level (canon_bv), which makes alpha-equivalent comprehensions equal terms
        self.p._bv_serial = getattr(self.p, "_bv_serial", 0) + 1  # noqa: SLF001
        depth = f"u{self.p._bv_serial}"  # noqa: SLF001
        sc: dict = {}
        self.comp_scopes.append(sc)
        gens = []
        counter = [0]

        def bind(tg):
            if isinstance(tg, ast.Name):
                t = ("bv", depth, counter[0])
                counter[0] += 1
                sc[tg.id] = t
                return t
            if isinstance(tg, (ast.Tuple, ast.List)):
                return ("tuple", tuple(bind(x) for x in tg.elts))
            if isinstance(tg, ast.Starred):
                return ("star", bind(tg.value))
            return ("unknown", "comp target")

        for g in e.generators:
            it = self.expr(g.iter)
            tg = bind(g.target)
            conds = tuple(self.expr(c) for c in g.ifs)
            gens.append((tg, it, conds))
        if kind == "dict":
            elt = (self.expr(e.key), self.expr(e.value))
        else:
            elt = self.expr(e.elt)
        self.comp_scopes.pop()
        self.bv_depth -= 1
        r = ("comp", kind, elt, tuple(gens))
        return canon_bv(r) if self.bv_depth == 0 else r


_UNIQ = [0]


def canon_bv(t):
    """Bound variables numbered by the HEIGHT of the comprehension that binds them (1 for a comprehension without
    nested comprehensions, otherwise 1 + the largest height inside it).  The numbering of a closed sub-term does
    not depend on where the sub-term occurs, so a value keeps its identity when it is used inside another
    comprehension, and alpha-equivalent comprehensions are equal terms.  Step 1 gives every binder a fresh id,
    respecting shadowing (so a term into which other closed terms were inlined is treated correctly); step 2
    numbers by height."""
    if _bvfree(t):
        return t
    return _canon_bv(_uniquify(t, {}))[0]


_NO_BVFREE = bool(os.environ.get("LCMSA_NO_BVFREE"))
_BVFREE: dict = {}  # id(term) -> (term kept alive, flag): does the term contain no bound variable and no binder?


def _bvfree(t):
    """True iff no bound variable, comprehension, lambda or count occurs in t.  Such sub-terms (the bulk of an inlined
    value graph) are returned unchanged by every pass below, which also keeps them shared."""
    if not isinstance(t, tuple):
        return True
    if _NO_BVFREE:
        return False
    k = id(t)
    hit = _BVFREE.get(k)
    if hit is not None and hit[0] is t:
        return hit[1]
    if len(_BVFREE) > 3_000_000:
        _BVFREE.clear()
    if is_term(t) and (t[0] in ("bv", "comp", "lambda") or (t[0] == "op" and len(t) == 5 and t[1] == "count")):
        r = False
    else:
        r = all(_bvfree(x) for x in t if isinstance(x, tuple))
    _BVFREE[k] = (t, r)
    return r


def _binder_parts(t):
    """(kind, generators [(target, iterable, conds)], body parts) of a binding construct, else None."""
    if is_term(t) and t[0] == "comp" and len(t) == 4:
        return "comp"
    if is_term(t) and t[0] == "op" and len(t) == 5 and t[1] == "count" and {"where", "for", "in"} <= {k for k, _ in t[2]}:
        return "count"
    return None


def _uniquify(t, env):
    if not isinstance(t, tuple) or _bvfree(t):
        return t
    if is_term(t) and t[0] == "bv" and len(t) == 3:
        return env.get(t, t)
    kind = _binder_parts(t)
    if is_term(t) and t[0] == "lambda" and len(t) == 3 and all(isinstance(n, str) and n.startswith("_b") for n in t[1]):
        env2 = dict(env)
        _UNIQ[0] += 1
        names = []
        for k, n in enumerate(t[1]):
            d_, _, i_ = n[2:].partition("_")
            old = ("bv", int(d_) if d_.isdigit() else d_, int(i_) if i_.isdigit() else k)
            env2[old] = ("bv", f"q{_UNIQ[0]}", k)
            names.append(f"_bq{_UNIQ[0]}_{k}")
        return ("lambda", tuple(names), _uniquify(t[2], env2))
    if kind == "comp":
        env2 = dict(env)
        gens = []
        for tg, it, conds in t[3]:
            it2 = _uniquify(it, env2)
            _UNIQ[0] += 1
            for k, b in enumerate([x for x in walk(tg) if x[0] == "bv"] if is_term(tg) else []):
                env2[b] = ("bv", f"q{_UNIQ[0]}", k)
            gens.append((_uniquify(tg, env2), it2, tuple(_uniquify(c, env2) for c in conds)))
        elt = t[2]
        elt2 = tuple(_uniquify(x, env2) for x in elt) if t[1] == "dict" else _uniquify(elt, env2)
        return ("comp", t[1], elt2, tuple(gens))
    if kind == "count":
        d = dict(t[2])
        env2 = dict(env)
        it2 = _uniquify(d["in"], env2)
        _UNIQ[0] += 1
        for k, b in enumerate([x for x in walk(d["for"]) if x[0] == "bv"] if is_term(d["for"]) else []):
            env2[b] = ("bv", f"q{_UNIQ[0]}", k)
        d2 = {**{k: _uniquify(v, env) for k, v in d.items() if k not in ("where", "for", "in")},
              "where": _uniquify(d["where"], env2), "for": _uniquify(d["for"], env2), "in": it2}
        return ("op", "count", tuple(sorted(d2.items())), _uniquify(t[3], env), _uniquify(t[4], env))
    return tuple(_uniquify(x, env) if isinstance(x, tuple) else x for x in t)


def _canon_bv(t):
    if not isinstance(t, tuple) or _bvfree(t):
        return t, 0
    kind = _binder_parts(t)
    if is_term(t) and t[0] == "lambda" and len(t) == 3 and all(isinstance(n, str) and n.startswith("_bq") for n in t[1]):
        body, h = _canon_bv(t[2])
        h += 1
        mapping, names = {}, []
        for k, n in enumerate(t[1]):
            u = n[2:].rpartition("_")[0]
            mapping[("bv", u, k)] = ("bv", h, k)
            names.append(f"_b{h}_{k}")
        return ("lambda", tuple(names), _rename_bv(body, mapping)), h
    if kind == "comp":
        h = 0
        gens = []
        for tg, it, conds in t[3]:
            it2, h1 = _canon_bv(it)
            cs = []
            for c in conds:
                c2, h2 = _canon_bv(c)
                cs.append(c2)
                h = max(h, h2)
            h = max(h, h1)
            gens.append((tg, it2, tuple(cs)))
        if t[1] == "dict":
            (k2, hk), (v2, hv) = _canon_bv(t[2][0]), _canon_bv(t[2][1])
            elt, h = (k2, v2), max(h, hk, hv)
        else:
            elt, he = _canon_bv(t[2])
            h = max(h, he)
        h += 1
        mapping = {}
        k = 0
        for tg, _it, _cs in gens:
            for b in ([x for x in walk(tg) if x[0] == "bv"] if is_term(tg) else []):
                if b not in mapping:
                    mapping[b] = ("bv", h, k)
                    k += 1
        return _rename_bv(("comp", t[1], elt, tuple(gens)), mapping), h
    if kind == "count":
        d = dict(t[2])
        parts = {}
        h = 0
        for k_, v in d.items():
            v2, hv = _canon_bv(v)
            parts[k_] = v2
            h = max(h, hv)
        h += 1
        mapping = {b: ("bv", h, k) for k, b in enumerate([x for x in walk(parts["for"]) if x[0] == "bv"] if is_term(parts["for"]) else [])}
        r = ("op", "count", tuple(sorted(parts.items())), t[3], t[4])
        return _rename_bv(r, mapping), h
    out, h = [], 0
    for x in t:
        if isinstance(x, tuple):
            x2, hx = _canon_bv(x)
            out.append(x2)
            h = max(h, hx)
        else:
            out.append(x)
    return tuple(out), h


def _rename_bv(t, mapping):
    if not isinstance(t, tuple) or _bvfree(t):
        return t
    if is_term(t) and t[0] == "bv" and len(t) == 3:
        return mapping.get(t, t)
    return tuple(_rename_bv(x, mapping) if isinstance(x, tuple) else x for x in t)


def _match_as_if(s):
    """`match x: case V1: A; case V2 | V3: B; case _: C` with value / literal / or / wildcard patterns is the
    if-elif-else chain on `x == V`.  Anything else (captures, sequences, classes, guards): None (unsupported)."""
    def test_of(pat):
        if isinstance(pat, ast.MatchValue):
            return ast.Compare(left=s.subject, ops=[ast.Eq()], comparators=[pat.value])
        if isinstance(pat, ast.MatchSingleton):
            return ast.Compare(left=s.subject, ops=[ast.Is()], comparators=[ast.Constant(pat.value)])
        if isinstance(pat, ast.MatchOr):
            parts = [test_of(p) for p in pat.patterns]
            return None if any(p is None for p in parts) else ast.BoolOp(op=ast.Or(), values=parts)
        return None

    cases = list(s.cases)
    orelse = []
    if cases and isinstance(cases[-1].pattern, ast.MatchAs) and cases[-1].pattern.pattern is None and cases[-1].pattern.name is None \
            and cases[-1].guard is None:
        orelse = cases[-1].body
        cases = cases[:-1]
    node = None
    for c in reversed(cases):
        t = test_of(c.pattern)
        if t is None or c.guard is not None:
            return None
        node = ast.If(test=t, body=c.body, orelse=[node] if node is not None else orelse)
    if node is None:
        return orelse or None
    ast.copy_location(node, s)
    ast.fix_missing_locations(node)
    return node


def _load(node):
    """Copy of an assignment target usable as an expression."""
    import copy

    n = copy.deepcopy(node)
    for x in ast.walk(n):
        if hasattr(x, "ctx"):
            x.ctx = ast.Load()
    return n
