"""How much of two normal forms is *not shared*: the size of the edit that separates them.

The value graph inlines temporaries, so one textual edit shows up wherever the edited value is used and
every enclosing term differs as well.  The measure below undoes both effects:

* all sub-terms of both forms are hash-consed into one table; a sub-term that occurs (anywhere) in the
  other form counts as ONE node ("shared"), however large it is;
* the two forms are descended in parallel through equal constructors; children lists of different length
  are aligned by longest common subsequence; a form that occurs unchanged inside its counterpart (a wrapper
  added or removed) costs only the wrapper;
* every distinct pair of differing sub-terms is counted once, however often inlining repeats it.

`local_cost(a, b)` is the number of unshared nodes that must be deleted from `a` and inserted to obtain `b`.
A slip (wrong variable, dropped operand, extra cast, other attribute) costs a handful of nodes; code that
was rewritten in a different way costs dozens to thousands.
"""
from __future__ import annotations

import sys


class _Table:
    def __init__(self):
        self.ids: dict = {}
        self.kids: list = []  # per id: tuple of child ids, or None for an atom
        self.atom: list = []

    def cons(self, t):
        if not isinstance(t, tuple):
            key = ("A", type(t).__name__, t)
            i = self.ids.get(key)
            if i is None:
                i = len(self.kids)
                self.ids[key] = i
                self.kids.append(None)
                self.atom.append(t)
            return i
        ks = tuple(self.cons(x) for x in t)
        key = ("T", ks)
        i = self.ids.get(key)
        if i is None:
            i = len(self.kids)
            self.ids[key] = i
            self.kids.append(ks)
            self.atom.append(None)
        return i

    def reach(self, root):
        seen = set()
        stack = [root]
        while stack:
            i = stack.pop()
            if i in seen:
                continue
            seen.add(i)
            if self.kids[i] is not None:
                stack.extend(self.kids[i])
        return seen


def local_cost(a, b) -> int:
    return sum(local_cost2(a, b))


def local_cost2(a, b):
    """(unshared nodes of a, unshared nodes of b)."""
    if a == b:
        return (0, 0)
    old = sys.getrecursionlimit()
    sys.setrecursionlimit(max(old, 20000))
    try:
        return _local_cost(a, b)
    finally:
        sys.setrecursionlimit(old)


def _local_cost(a, b):  # noqa: C901, PLR0915
    tb = _Table()
    ra, rb = tb.cons(a), tb.cons(b)
    in_a, in_b = tb.reach(ra), tb.reach(rb)
    kids, atom = tb.kids, tb.atom
    size_memo: dict = {}

    def csize(i, other):
        """Nodes of i that do not occur in the other form (a shared sub-term counts 1)."""
        k = (i, other is in_a)
        if k in size_memo:
            return size_memo[k]
        if i in other or kids[i] is None:
            r = 1
        else:
            r = 1 + sum(csize(c, other) for c in kids[i])
        size_memo[k] = r
        return r

    seen_pairs: set = set()
    cost_memo: dict = {}
    reach_memo: dict = {}

    def reaches(i, j):
        if i not in reach_memo:
            reach_memo[i] = tb.reach(i)
        return j in reach_memo[i]

    def head(i):
        ks = kids[i]
        if ks and kids[ks[0]] is None and isinstance(atom[ks[0]], str):
            return atom[ks[0]]
        return None

    def add(x, y):
        return (x[0] + y[0], x[1] + y[1])

    def tot(x):
        return x[0] + x[1]

    def cost(i, j):
        """(unshared nodes on the a side, unshared nodes on the b side) of the cheapest alignment."""
        if i == j:
            return (0, 0)
        if (i, j) in seen_pairs:
            return (0, 0)  # the same deviation, repeated by inlining
        seen_pairs.add((i, j))
        if (i, j) in cost_memo:
            return cost_memo[(i, j)]
        ki, kj = kids[i], kids[j]
        if ki is None and kj is None:
            r = (1, 1)
        elif ki is None or kj is None:
            r = (csize(i, in_b), csize(j, in_a))
            if ki is None and kj is not None and reaches(j, i):
                r = min(r, (0, csize(j, in_a)), key=tot)
            if kj is None and ki is not None and reaches(i, j):
                r = min(r, (csize(i, in_b), 0), key=tot)
        else:
            r = (csize(i, in_b), csize(j, in_a))
            if reaches(i, j):
                r = min(r, (max(csize(i, in_b) - 1, 1), 0), key=tot)
            elif reaches(j, i):
                r = min(r, (0, max(csize(j, in_a) - 1, 1)), key=tot)
            hi, hj = head(i), head(j)
            if (hi is None) == (hj is None) and hi == hj:
                if len(ki) == len(kj):
                    c = (0, 0)
                    for x, y in zip(ki, kj, strict=True):
                        if x != y:
                            c = add(c, cost(x, y))
                    r = min(r, c, key=tot)
                elif len(ki) * len(kj) <= 10000:
                    n, m = len(ki), len(kj)
                    L = [[0] * (m + 1) for _ in range(n + 1)]
                    for p in range(n - 1, -1, -1):
                        for q in range(m - 1, -1, -1):
                            L[p][q] = L[p + 1][q + 1] + 1 if ki[p] == kj[q] else max(L[p + 1][q], L[p][q + 1])
                    p = q = 0
                    ua, ub = [], []
                    while p < n and q < m:
                        if ki[p] == kj[q]:
                            p += 1
                            q += 1
                        elif L[p + 1][q] >= L[p][q + 1]:
                            ua.append(ki[p])
                            p += 1
                        else:
                            ub.append(kj[q])
                            q += 1
                    ua += ki[p:]
                    ub += kj[q:]
                    c = (0, 0)
                    for x, y in zip(ua, ub, strict=False):
                        c = add(c, cost(x, y))
                    for x in ua[len(ub):]:
                        c = add(c, (csize(x, in_b), 0))
                    for y in ub[len(ua):]:
                        c = add(c, (0, csize(y, in_a)))
                    r = min(r, c, key=tot)
        cost_memo[(i, j)] = r
        return r

    return cost(ra, rb)
