"""Boolean formulas over the columns of ``variable_info`` / ``function_info``.

A pandas ``query`` string such as ``"is_dense & ~(is_choice & is_continuous)"`` is parsed
into a formula; its meaning is the set of *variable classes* (truth assignments to the
independent columns that satisfy the constraints read from the source) it selects.
"""

from __future__ import annotations

import itertools
import re

from lcmsa.core import AnalysisError

TOKEN = re.compile(r"\s*(?:(\w+)|(&|\||~|\(|\)|==|!=))")


def parse(s: str):
    toks = []
    pos = 0
    s = s.strip()
    while pos < len(s):
        m = TOKEN.match(s, pos)
        if not m:
            raise AnalysisError(f"query {s!r}: cannot tokenise at {pos}")
        toks.append(m.group(1) or m.group(2))
        pos = m.end()
    i = [0]

    def peek():
        return toks[i[0]] if i[0] < len(toks) else None

    def eat(t=None):
        tok = peek()
        if t is not None and tok != t:
            raise AnalysisError(f"query {s!r}: expected {t!r}, got {tok!r}")
        i[0] += 1
        return tok

    def p_or():
        left = p_and()
        while peek() in ("|", "or"):
            eat()
            left = ("or", left, p_and())
        return left

    def p_and():
        left = p_not()
        while peek() in ("&", "and"):
            eat()
            left = ("and", left, p_not())
        return left

    def p_not():
        if peek() in ("~", "not"):
            eat()
            return ("not", p_not())
        return p_atom()

    def p_atom():
        tok = peek()
        if tok == "(":
            eat("(")
            e = p_or()
            eat(")")
            return e
        if tok is None or not re.match(r"^\w+$", tok):
            raise AnalysisError(f"query {s!r}: unexpected token {tok!r}")
        eat()
        if tok in ("True", "False"):
            e = ("lit", tok == "True")
        else:
            e = ("col", tok)
        if peek() in ("==", "!="):
            op = eat()
            rhs = eat()
            if rhs not in ("True", "False"):
                raise AnalysisError(f"query {s!r}: comparison with {rhs!r}")
            val = rhs == "True"
            if op == "!=":
                val = not val
            return e if val else ("not", e)
        return e

    out = p_or()
    if peek() is not None:
        raise AnalysisError(f"query {s!r}: trailing tokens {toks[i[0]:]}")
    return out


def columns(f) -> set[str]:
    if f[0] == "col":
        return {f[1]}
    if f[0] == "lit":
        return set()
    out = set()
    for x in f[1:]:
        out |= columns(x)
    return out


def evaluate(f, row: dict) -> bool:
    t = f[0]
    if t == "col":
        if f[1] not in row:
            raise AnalysisError(f"unknown column {f[1]}")
        return row[f[1]]
    if t == "lit":
        return f[1]
    if t == "not":
        return not evaluate(f[1], row)
    if t == "and":
        return evaluate(f[1], row) and evaluate(f[2], row)
    if t == "or":
        return evaluate(f[1], row) or evaluate(f[2], row)
    raise AnalysisError(f"bad formula {f}")


def conj(*fs):
    fs = [f for f in fs if f is not None]
    out = fs[0]
    for f in fs[1:]:
        out = ("and", out, f)
    return out


def show_formula(f) -> str:
    t = f[0]
    if t == "col":
        return f[1]
    if t == "lit":
        return str(f[1])
    if t == "not":
        return "~" + show_formula(f[1]) if f[1][0] in ("col", "lit") else f"~({show_formula(f[1])})"
    op = " & " if t == "and" else " | "
    return "(" + op.join(show_formula(x) for x in f[1:]) + ")"


class Universe:
    """All variable classes: rows over independent columns satisfying the constraints."""

    def __init__(self, independent: list[str], derived: dict, constraints: list):
        self.independent = independent
        self.derived = derived  # col -> formula over other columns
        self.constraints = constraints  # formulas that hold for every row
        self.rows = []
        for bits in itertools.product([False, True], repeat=len(independent)):
            row = dict(zip(independent, bits, strict=True))
            # derived columns may depend on each other; iterate to fixpoint
            pending = dict(derived)
            for _ in range(len(derived) + 1):
                for c, f in list(pending.items()):
                    if columns(f) <= set(row):
                        row[c] = evaluate(f, row)
                        del pending[c]
            if pending:
                raise AnalysisError(f"cyclic derived columns {sorted(pending)}")
            if all(evaluate(c, row) for c in constraints):
                self.rows.append(row)

    def select(self, f, within=None) -> frozenset:
        rows = self.rows
        out = set()
        for i, r in enumerate(rows):
            if within is not None and i not in within:
                continue
            if evaluate(f, r):
                out.add(i)
        return frozenset(out)

    def all(self) -> frozenset:
        return frozenset(range(len(self.rows)))

    def describe(self, i) -> str:
        r = self.rows[i]
        return "{" + ",".join(sorted(c for c in self.independent if r[c]) or ["-"]) + "}"

    def describe_set(self, s) -> str:
        return "[" + " ".join(self.describe(i) for i in sorted(s)) + "]"
