"""Helpers for navigating terms."""

from __future__ import annotations

from lcmsa.core import (
    AnalysisError,
    Program,
    callee_name,
    is_term,
    kw,
    show,
    walk,
)
from lcmsa.formula import conj, parse


def need(x, msg):
    if x is None or x is False or (isinstance(x, (list, tuple, dict, set, frozenset)) and not x):
        raise AnalysisError(msg)
    return x


def as_setop(t):
    """(`-`|`|`|`&`, left, right) for `a - b` and for `a.difference(b)` / `a.union(b)` / `a.intersection(b)`."""
    if is_term(t) and t[0] == "binop" and t[1] in ("-", "|", "&"):
        return t[1], t[2], t[3]
    if is_term(t) and t[0] == "call" and t[1][0] == "attr" and len(t[2]) == 1 and not t[3]:
        op = {"difference": "-", "union": "|", "intersection": "&"}.get(t[1][2])
        if op:
            return op, t[1][1], t[2][0]
    return None


def calls_in(t, *names):
    """All sub-terms of ``t`` that are calls to one of ``names`` (dotted)."""
    return [s for s in walk(t) if s[0] == "call" and callee_name(s) in names]


def frame_terms(fr):
    """Every top-level term recorded in a frame (env values, returns, effects)."""
    out = list(fr.env.values())
    out += [t for _, t in fr.returns]
    out += [t for _, t, _ in fr.effects]
    out += [t for _, t, _ in fr.raises]
    return out


def calls_in_frame(prog: Program, fr, *names):
    seen = []
    for t in frame_terms(fr) + loop_terms(prog, fr):
        for c in calls_in(t, *names):
            if c not in seen:
                seen.append(c)
    return seen


def loop_terms(prog: Program, fr):
    out = []
    for lid, lp in prog.loops.items():
        if lp.func == fr.qualname and "@" not in lid:
            out += list(lp.next.values()) + list(lp.init.values()) + [lp.iter]
    return out


def all_frames(prog: Program, *, include_extra: bool = False):
    """Frames of every lcm function, closure bodies included (closures get created while
    executing their enclosing function).  Reference / fixture modules only on request."""
    frames = {}
    extra = getattr(prog, "extra", set())

    def wanted(module):
        return include_extra or module not in extra

    for q, info in list(prog.funcs.items()):
        if info.parent is None and wanted(info.module):
            frames[q] = prog.frame(q)
    # closures
    done = set()
    while True:
        todo = [cid for cid in list(prog.closures) if cid not in done and cid not in prog.variant_closures]
        if not todo:
            break
        for cid in todo:
            done.add(cid)
            info = prog.closures[cid][0]
            if not wanted(info.module):
                continue
            fr = prog.closure_frame(cid)
            frames[f"{info.qualname}@{cid}"] = fr
    return frames


# -------------------------------------------------------------------------------------
# pandas query terms
# -------------------------------------------------------------------------------------


def mask_string(m, table):
    """A boolean mask over the columns of ``table`` (``table["c"]``, ``table.c``, ``&``, ``|``, ``~``) as the query
    string that selects the same rows, else None."""
    if not is_term(m):
        return None
    if m[0] == "sub" and m[1] == table and const_str(m[2]) is not None and const_str(m[2]).isidentifier():
        return m[2][1]
    if m[0] == "attr" and m[1] == table and m[2].isidentifier() and m[2] not in ("index", "loc", "iloc", "columns", "values", "T"):
        return m[2]
    if m[0] == "binop" and m[1] in ("&", "|"):
        l, r = mask_string(m[2], table), mask_string(m[3], table)
        if l is None or r is None:
            return None
        return f"({l}) {'and' if m[1] == '&' else 'or'} ({r})"
    if m[0] == "unop" and m[1] in ("~", "invert"):
        x = mask_string(m[2], table)
        return None if x is None else f"not ({x})"
    return None


def _mask_selection(t):
    """``X[mask]`` / ``X.loc[mask]`` with a boolean mask over X's own columns -> (X, query string) else None."""
    if is_term(t) and t[0] == "sub":
        recv = t[1][1] if t[1][0] == "attr" and t[1][2] in ("loc", "index") else t[1]  # X.index[mask]: labels of X[mask]
        s = mask_string(t[2], recv)
        if s is not None:  # a bare column used as the mask (X[X["flag"]]) is a selection as well
            return recv, s
    return None


def is_query(t):
    """``X.query("...")`` (or the same selection written as a boolean mask) -> (receiver, string) else None."""
    ms = _mask_selection(t)
    if ms is not None:
        return ms
    if (
        is_term(t)
        and t[0] == "call"
        and t[1][0] == "attr"
        and t[1][2] == "query"
        and len(t[2]) == 1
        and t[2][0][0] == "const"
        and isinstance(t[2][0][1], str)
    ):
        return t[1][1], t[2][0][1]
    return None


def query_of(t):
    """Strip ``.index``, ``.tolist()``, ``set()``, ``list()``, ``len()`` around a query."""
    while is_term(t):
        if is_query(t):
            return t
        if t[0] == "sub" and t[1][0] == "attr" and t[1][2] == "index" and mask_string(t[2], t[1][1]) is not None:
            return ("sub", t[1][1], t[2])  # X.index[mask] selects the labels of X[mask]
        if t[0] == "attr" and t[2] in ("index",):
            t = t[1]
        elif t[0] == "call" and t[1][0] == "attr" and t[1][2] in ("tolist", "to_list") and not t[2]:
            t = t[1][1]
        elif t[0] == "call" and callee_name(t) in (
            "builtins.set", "builtins.list", "builtins.len", "builtins.tuple", "builtins.sorted"
        ) and len(t[2]) == 1:
            t = t[2][0]
        else:
            return None
    return None


def effective_formula(t, flags: dict):
    """Formula selected by a (possibly chained) query term under boolean ``flags``.

    ``vi.query(A).query(B)`` -> A & B ; a receiver ``phi(flag, a, b)`` is resolved with
    ``flags[flag-name]``.  Returns (formula or None for 'all rows', base receiver).
    """
    q = query_of(t)
    if q is None:
        raise AnalysisError(f"not a query selection: {show(t)[:120]}")
    recv, s = is_query(q)
    f = parse(s)
    inner, base = receiver_formula(recv, flags)
    return (conj(inner, f) if inner is not None else f), base


def receiver_formula(recv, flags):
    if is_query(recv):
        r2, s2 = is_query(recv)
        inner, base = receiver_formula(r2, flags)
        f2 = parse(s2)
        return (conj(inner, f2) if inner is not None else f2), base
    if recv[0] in ("phi", "ifexp"):
        cond = recv[1]
        name = flag_name(cond)
        if name is None or name not in flags:
            raise AnalysisError(f"query receiver depends on unknown condition {show(cond)[:80]}")
        val = flags[name]
        if cond[0] == "not":
            val = not val
        return receiver_formula(recv[2] if val else recv[3], flags)
    return None, recv


def flag_name(cond):
    if cond[0] == "not":
        return flag_name(cond[1])
    if cond[0] == "unop" and cond[1] == "not":
        return flag_name(cond[2])
    if cond[0] == "param":
        return cond[2]
    return None


def const_str(t):
    if is_term(t) and t[0] == "const" and isinstance(t[1], str):
        return t[1]
    return None


def kwarg(call, name, pos=None):
    v = kw(call, name)
    if v is None and pos is not None and pos < len(call[2]):
        v = call[2][pos]
    return v


def selections(t):
    """Outermost query selections in value position of ``t`` (phi conditions, comprehension
    filters' receivers and the receivers of the queries themselves are not searched)."""
    out = []

    def go(x):
        if not is_term(x):
            if isinstance(x, tuple):
                for y in x:
                    go(y)
            return
        if is_query(x):
            out.append(x)
            return
        if x[0] == "call" and is_term(x[1]) and x[1][0] == "attr" and x[1][2] == "query":
            # a query whose string is computed: its receiver must not be mistaken for the selection
            raise AnalysisError(f"query with a string that is not a constant: {show(x)[:100]}")
        if x[0] in ("phi", "ifexp"):
            go(x[2])
            go(x[3])
            return
        for y in x[1:]:
            if isinstance(y, tuple):
                go(y)

    go(t)
    return out


def deep_walk(prog, t, _seen=None):
    """Like walk, but follows after-loop / loop-carried references into the loop tables."""
    seen = _seen if _seen is not None else set()
    for s in walk(t):
        yield s
        if s[0] in ("loopout", "carried") and (s[1], s[2]) not in seen:
            seen.add((s[1], s[2]))
            lp = prog.loops.get(s[1])
            if lp is None:
                continue
            for src in (lp.next.get(s[2]), lp.init.get(s[2])):
                if src is not None:
                    yield from deep_walk(prog, src, seen)


def deep_selections(prog, t):
    out = []
    for s in deep_walk(prog, t):
        if is_query(s) and s not in out:
            out.append(s)
    return out


def column_formula(t, flags):
    """``X["c"]`` / ``X.c`` / ``A & B`` / ``~A`` over columns of a table -> (formula, base)."""
    if t[0] == "sub" and t[2][0] == "const" and isinstance(t[2][1], str):
        inner, base = receiver_formula(t[1], flags)
        f = ("col", t[2][1])
        return (conj(inner, f) if inner is not None else f), base
    if t[0] == "attr" and t[2].startswith("is_"):
        inner, base = receiver_formula(t[1], flags)
        f = ("col", t[2])
        return (conj(inner, f) if inner is not None else f), base
    if t[0] == "binop" and t[1] in ("&", "|"):
        a, base = column_formula(t[2], flags)
        b, _ = column_formula(t[3], flags)
        return ("and" if t[1] == "&" else "or", a, b), base
    if t[0] == "unop" and t[1] == "~":
        a, base = column_formula(t[2], flags)
        return ("not", a), base
    raise AnalysisError(f"not a column expression: {show(t)[:100]}")


def exists_formula(t, flags):
    """A boolean flag of the form 'some variable satisfies F' -> F."""
    # X[...].any()
    if t[0] == "call" and t[1][0] == "attr" and t[1][2] == "any" and not t[2]:
        return column_formula(t[1][1], flags)[0]
    # len(query) > 0  /  len(query) != 0 / bool(query list)
    if t[0] == "cmp" and t[1] in ((">",), ("!=",)) and t[2][1] == ("const", 0):
        q = query_of(t[2][0])
        if q is not None:
            return effective_formula(q, flags)[0]
    if t[0] == "cmp" and t[1] == (">=",) and t[2][1] == ("const", 1):
        q = query_of(t[2][0])
        if q is not None:
            return effective_formula(q, flags)[0]
    q = query_of(t)
    if q is not None:
        return effective_formula(q, flags)[0]
    raise AnalysisError(f"flag not recognised as an existence test: {show(t)[:100]}")


def choice_axes_info(ret, prog=None):
    """Parse ``tuple(i [+k] for i, ax in enumerate(AXES) if ax in CHOICE)``.

    Returns dict(axes=term, choice=term, offset=int) or raises.
    """
    from lcmsa.alg import deindex

    if prog is not None:
        from lcmsa.rules_kernel import comprehend

        ret = comprehend(prog, ret)  # a loop that appends under an `if` is the comprehension
    ret = deindex(ret)  # `for i in range(len(AXES)) if AXES[i] in CHOICE` is the same iteration
    for s in walk(ret):
        if s[0] != "comp" or s[1] not in ("list", "gen", "set") or len(s[3]) != 1:
            continue
        tg, it, conds = s[3][0]
        if not (tg[0] == "tuple" and len(tg[1]) == 2 and callee_name(it) == "builtins.enumerate" and it[2]):
            continue
        i, ax = tg[1]
        elt = s[2]
        offset = None
        if elt == i:
            offset = 0
        elif elt[0] == "binop" and elt[1] == "+" and elt[2] == i and elt[3][0] == "const":
            offset = elt[3][1]
        elif elt[0] == "binop" and elt[1] == "+" and elt[3] == i and elt[2][0] == "const":
            offset = elt[2][1]
        if offset is None or len(conds) != 1:
            continue
        c = conds[0]
        if c[0] == "cmp" and c[1] == ("in",) and c[2][0] == ax:
            start = kw(it, "start")
            if start is not None:
                if start[0] != "const":
                    continue
                offset += start[1]
            return {"axes": it[2][0], "choice": c[2][1], "offset": offset, "where": s}
    raise AnalysisError("choice-axes computation not recognised (enumerate over the axis list)")


def product_closures(prog, fr):
    """Ids of the nested functions of ``fr`` that are (part of) what the factory returns -- as opposed to local
    helpers that are only called while the factory or its product runs.  Falls back to all nested functions when
    the returned value mentions none of them."""
    cids = sorted(c for cs in fr.closures.values() for c in cs)
    terms = [fr.ret] if fr.ret is not None else []
    terms += [t for _c, t in fr.returns]
    reach = {x[2] for t in terms for x in walk(t) if is_term(x) and x[0] == "closure" and len(x) == 3}
    picked = [c for c in cids if c in reach]
    return picked or cids
