"""Catalogue of self-test variants (one instance broken / one behaviour-preserving edit)."""

VARIANTS = []


def brk(id_, props, file, old, new, why="", count=1, must_fire=None):
    v = {"id": id_, "props": props, "expect": "fire", "why": why,
         "edits": [{"file": file, "old": old, "new": new, "count": count}]}
    if must_fire:
        v["must_fire"] = must_fire
    VARIANTS.append(v)
    return v


def keep(id_, props, edits=None, kind=None, why="", allow_undecided=False):
    v = {"id": id_, "props": props, "expect": "silent", "why": why, "allow_undecided": allow_undecided}
    if kind:
        v["kind"] = kind
    else:
        v["edits"] = [{"file": f, "old": o, "new": n, "count": c} for f, o, n, c in edits]
    VARIANTS.append(v)
    return v


ALL = [f"C{i:02d}" for i in range(1, 21)]

# ------------------------------------------------------------------------------ R2 QA
brk("Q01", ["C05", "C12"], "state_space.py",
    'subset=vi.query("is_dense & ~(is_choice & is_continuous)").index.tolist()',
    'subset=vi.query("is_dense").index.tolist()',
    "dense grid selection keeps continuous choices: mapped twice")
brk("Q02", ["C05", "C17"], "input_processing/util.py",
    '''    order = info.query("is_sparse & is_state").index.tolist()
    order += info.query("is_sparse & is_choice").index.tolist()''',
    '''    order = info.query("is_sparse & is_choice").index.tolist()
    order += info.query("is_sparse & is_state").index.tolist()''',
    "sparse choices before sparse states in the canonical order")
brk("Q03", ["C05", "C14"], "input_processing/util.py",
    '''    order += info.query("is_dense & is_discrete & is_state").index.tolist()
    order += info.query("is_dense & is_discrete & is_choice").index.tolist()
    order += info.query("is_dense & is_continuous & is_state").index.tolist()''',
    '''    order += info.query("is_dense & is_continuous & is_state").index.tolist()
    order += info.query("is_dense & is_discrete & is_state").index.tolist()
    order += info.query("is_dense & is_discrete & is_choice").index.tolist()''',
    "continuous states before discrete states")
brk("Q04", ["C05", "C17"], "state_space.py",
    'n_sparse_states=len(vi.query("is_sparse & is_state")),',
    'n_sparse_states=len(vi.query("is_sparse")),',
    "n_sparse_states counts sparse choices too")
brk("Q05", ["C05", "C14"], "state_space.py",
    'axis_names = vi.query("is_dense & is_state").index.tolist()',
    'axis_names = vi.query("is_state").index.tolist()',
    "axis_names includes restricted states")
brk("Q06", ["C02", "C05"], "simulate.py",
    '"~is_continuous & is_dense & is_choice",',
    '"is_dense & is_choice",',
    "simulate's dense choice axes include continuous choices")
brk("Q07", ["C05"], "input_processing/util.py", "    return info.loc[order]", "    return info.loc[sorted(order)]",
    "canonical order replaced by alphabetical order")
brk("Q08", ["C05", "C01"], "discrete_problem.py",
    '''        "is_dense & ~(is_choice & is_continuous)",
    ).index.tolist()''',
    '''        "is_dense & is_discrete",
    ).index.tolist()''',
    "discrete problem forgets continuous state axes when locating choice axes (harmless for indices before them? no: changes the axis list)")

keep("V01", ALL, kind="unparse", why="ast.unparse round trip of every module")
keep("V05a", ALL, [("state_space.py", 'vi.query("is_dense & ~(is_choice & is_continuous)")',
                    'vi.query("~is_sparse & (is_state | is_discrete)")', 1)],
     why="equivalent query (De Morgan, is_dense <-> ~is_sparse)")
keep("V05b", ALL, [("state_space.py", 'axis_names = vi.query("is_dense & is_state").index.tolist()',
                    'axis_names = vi.query("~is_choice & ~is_sparse").index.tolist()', 1)],
     why="equivalent query")
keep("V05c", ALL, [("simulate.py", '"~is_continuous & is_dense & is_choice",', '"is_discrete & ~is_sparse & ~is_state",', 1)],
     why="equivalent query")

# ------------------------------------------------------------------------------ R3 PER
brk("P01", ["C01"], "solve_brute.py", "for period in reversed(range(n_periods)):", "for period in range(n_periods):",
    "solve loop forward")
brk("P02", ["C01", "C05"], "solve_brute.py", "return list(reversed(reversed_solution))", "return reversed_solution",
    "result not reversed")
brk("P03", ["C01"], "entry_point.py", "    space_infos = space_infos[1:] + [{}]\n", "    space_infos = space_infos + [{}]\n",
    "space_infos not shifted")
brk("P04", ["C01", "C06"], "entry_point.py", "    state_indexers = state_indexers[1:] + [{}]\n", "",
    "state_indexers shift removed (D2 re-introduced)")
brk("P05", ["C06", "C01"], "simulate.py", "    vf_arr_list = vf_arr_list[1:] + [None]\n", "    vf_arr_list = vf_arr_list + [None]\n",
    "vf_arr_list not shifted in simulate")
brk("P06", ["C01", "C11"], "entry_point.py", "    last_period = _mod.n_periods - 1\n", "    last_period = _mod.n_periods\n",
    "is_last_period never true")
brk("P07", ["C01"], "entry_point.py", "            choice_segments=choice_segments[period],",
    "            choice_segments=choice_segments[period - 1],", "emax built with another period's segments")
brk("P08", ["C01"], "solve_brute.py", "            vf_arr=vf_arr,\n            state_indexers=state_indexers[period],",
    "            vf_arr=vf_arr,\n            state_indexers=state_indexers[period - 1],", "indexer of the wrong period in solve")
brk("P09", ["C01", "C11"], "entry_point.py", "            period=period,\n            is_last_period=is_last_period,\n        )\n\n        compute_ccv",
    "            period=period + 1,\n            is_last_period=is_last_period,\n        )\n\n        compute_ccv", "u_and_f built for period+1")
brk("P10", ["C06"], "entry_point.py", "        _target = partial(simulate_model, solve_model=solve_model)",
    "        _target = partial(simulate_model, solve_model=_next_state_simulate)", "solve_and_simulate binds the wrong function")
keep("V06", ALL, [("entry_point.py", "    space_infos = space_infos[1:] + [{}]\n", "    space_infos = [*space_infos[1:], {}]\n", 1)],
     why="shifted list built with a starred display")
keep("V08", ALL, [("solve_brute.py", "return list(reversed(reversed_solution))", "return reversed_solution[::-1]", 1)],
     why="reversal by slicing")
keep("V08b", ALL, [("solve_brute.py", "for period in reversed(range(n_periods)):", "for period in range(n_periods - 1, -1, -1):", 1)],
     why="backward loop written with a negative step")

# ------------------------------------------------------------------------------ R13 / R14
brk("X01", ["C01", "C11"], "model_functions.py", 'big_u = u + kwargs["params"]["beta"] * ccv',
    'big_u = u + kwargs["params"]["beta"] * kwargs["params"]["beta"] * ccv', "beta applied twice")
brk("X02", ["C01", "C11"], "model_functions.py",
    '''            return current_u_and_f(
                **states,
                **choices,
                _period=period,
                params=kwargs["params"],
            )
''',
    '''            u, f = current_u_and_f(
                **states,
                **choices,
                _period=period,
                params=kwargs["params"],
            )
            return kwargs["params"]["beta"] * u, f
''', "beta in the last period")
brk("X03", ["C01"], "entry_point.py", "return u.max(where=f, initial=-jnp.inf)", "return u.max(initial=-jnp.inf)",
    "feasibility mask dropped in compute_ccv")
brk("X04", ["C01"], "entry_point.py", "return u.max(where=f, initial=-jnp.inf)", "return u.max(where=f, initial=0.0)",
    "initial=0 instead of -inf")
brk("X05", ["C01", "C11"], "model_functions.py", "ccv = (ccvs_at_nodes * node_weights).sum()",
    "ccv = (ccvs_at_nodes * node_weights).mean()", "mean instead of sum over nodes")
brk("X06", ["C18", "C02"], "argmax.py", "        max_value_mask = jnp.logical_and(max_value_mask, where)\n",
    "        pass\n", "mask not conjoined in argmax")
brk("X07", ["C15", "C14"], "ndimage.py", "jnp.clip(jnp.floor(coordinate), 0, input_size - 2)",
    "jnp.clip(jnp.floor(coordinate), 0, input_size - 1)", "clip to size-1: upper neighbour out of range")
brk("X08", ["C15"], "ndimage.py", "return [(lower_index, lower_weight), (lower_index + 1, upper_weight)]",
    "return [(lower_index, upper_weight), (lower_index + 1, lower_weight)]", "weights swapped")
brk("X09", ["C15"], "ndimage.py", "upper_weight = coordinate - lower_index", "upper_weight = coordinate - jnp.floor(coordinate)",
    "weight from floor: no extrapolation")
brk("X10", ["C20"], "discrete_problem.py", 'exp = jnp.exp(a - segmax[segment_info["segment_ids"]])', "exp = jnp.exp(a)",
    "max shift removed (overflow) and result shifted")
brk("X11", ["C20"], "discrete_problem.py", "    return scale * _segment_logsumexp(a / scale, segment_info)",
    "    return _segment_logsumexp(a / scale, segment_info)", "scale not multiplied back")
brk("X12", ["C01", "C18"], "discrete_problem.py", "        out = out.max(axis=choice_axes)", "        out = out.min(axis=choice_axes)",
    "min instead of max over choice axes")
brk("X13", ["C01"], "model_functions.py", "                _period=period,\n                params=kwargs[\"params\"],\n            )\n            weights",
    "                _period=period + 1,\n                params=kwargs[\"params\"],\n            )\n            weights", "next_state evaluated with period+1")
brk("X14", ["C02"], "entry_point.py", "        _argmax, _max = argmax(u, where=f, initial=-jnp.inf)", "        _argmax, _max = argmax(u, initial=-jnp.inf)",
    "policy ignores feasibility")
brk("X15", ["C15"], "grid_helpers.py", "    step_length = (stop - start) / (n_points - 1)\n    return (value - start) / step_length",
    "    step_length = (stop - start) / n_points\n    return (value - start) / step_length", "step uses n_points", count=1)
brk("X16", ["C01"], "model_functions.py", 'variables=[f"next_{var}" for var in stochastic_variables],',
    'variables=[f"next_{var}" for var in reversed(stochastic_variables)],', "node axes in reversed order vs weights")
brk("T01", ["C06", "C01"], "simulate.py", "        sparse_vars=list(data_scs.sparse_vars),\n        put_dense_first=False,",
    "        sparse_vars=list(data_scs.sparse_vars),\n        put_dense_first=True,", "simulator twin puts dense first")
brk("T02", ["C06", "C02"], "entry_point.py",
    '''        compute_ccv_argmax = create_compute_conditional_continuation_policy(
            utility_and_feasibility=u_and_f,''',
    '''        compute_ccv_argmax = create_compute_conditional_continuation_policy(
            utility_and_feasibility=get_utility_and_feasibility_function(
                model=_mod, space_info=space_infos[period - 1], name_of_values_on_grid="vf_arr",
                period=period, is_last_period=is_last_period),''', "policy built from a second, different u_and_f")
keep("V07", ALL, [("model_functions.py", 'big_u = u + kwargs["params"]["beta"] * ccv', 'discounted = ccv * kwargs["params"]["beta"]\n            big_u = discounted + u', 1)],
     why="Bellman sum via a temporary, operands commuted")
keep("V07b", ALL, [("entry_point.py", "return u.max(where=f, initial=-jnp.inf)", "return jnp.max(u, initial=-jnp.inf, where=f)", 1)],
     why="function spelling of the masked max")
keep("V07c", ALL, [("ndimage.py", "    lower_weight = 1 - upper_weight\n", "    lower_weight = lower_index + 1 - coordinate\n", 1)],
     why="algebraically equal weight")

# ------------------------------------------------------------------------------ simulate: R15 / R6 / R5 / AX5
brk("A07", ["C02", "C08"], "simulate.py", "            if dense_argmax is not None:\n                dense_argmax = dense_argmax[sparse_argmax]\n", "",
    "dense_argmax not selected by sparse_argmax (D3 re-introduced)")
brk("A08", ["C02", "C08"], "simulate.py", "            cont_choice_argmax = cont_choice_argmax[sparse_argmax]\n", "            pass\n",
    "cont_choice_argmax not selected")
brk("A09", ["C02"], "simulate.py", "            grids=data_scs.dense_vars,\n            grid_shape=dense_vars_grid_shape,",
    "            grids=data_scs.dense_vars,\n            grid_shape=cont_choice_grid_shape,", "unravel shape from another grid dict")
brk("L01", ["C08"], "simulate.py", "            _combination_grid[name] = jnp.repeat(\n                state,\n                repeats=n_sc_product_combinations,\n            )",
    "            _combination_grid[name] = jnp.tile(\n                state,\n                reps=n_sc_product_combinations,\n            )", "repeat<->tile for states")
brk("L02", ["C08"], "simulate.py", "        data_choice_segments = create_choice_segments(\n            mask=mask,",
    "        data_choice_segments = create_choice_segments(\n            mask=jnp.ones_like(mask),", "segments from a different mask")
brk("L03", ["C13"], "simulate.py", 'out["_period"] = jnp.repeat(jnp.arange(n_periods), n_initial_states)',
    'out["_period"] = jnp.tile(jnp.arange(n_periods), n_initial_states)', "_period via tile")
brk("L04", ["C13"], "simulate.py", "        [range(n_periods), range(n_initial_states)],", "        [range(n_initial_states), range(n_periods)],",
    "from_product levels swapped")
brk("L05", ["C17", "C05"], "state_space.py", '_all_combis = jnp.meshgrid(*_grids.values(), indexing="ij")',
    '_all_combis = jnp.meshgrid(*_grids.values(), indexing="xy")', "meshgrid xy")
brk("K01", ["C04"], "simulate.py", "        key, sim_keys = _generate_simulation_keys(", "        _, sim_keys = _generate_simulation_keys(",
    "key not rebound in the loop")
brk("K02", ["C04"], "simulate.py", "simulation_keys = dict(zip(ids, keys[1:], strict=True))", "simulation_keys = dict(zip(ids, keys[:-1], strict=True))",
    "overlapping slices of the split")
brk("K03", ["C04"], "simulate.py", "simulation_keys = dict(zip(ids, keys[1:], strict=True))", "simulation_keys = {i: keys[1] for i in ids}",
    "same key for every variable")
brk("K04", ["C04"], "random_choice.py", "@partial(jax.vmap, in_axes=(0, 0, None))", "@partial(jax.vmap, in_axes=(None, 0, None))",
    "key not mapped over agents")
brk("K05", ["C04", "C03"], "random_choice.py", "return jax.random.choice(key, a=labels, p=probs)", "return jax.random.choice(key, a=labels)",
    "p= dropped: uniform draws")
brk("K06", ["C04"], "random_choice.py", "    keys = jax.random.split(key, probs.shape[0])", "    keys = jax.random.split(jax.random.PRNGKey(0), probs.shape[0])",
    "second PRNGKey(0)")
brk("K08", ["C04"], "simulate.py",
    '''        _simulation_results.append(
            {
                "value": value,
                "choices": choices,
                "states": states,
            },
        )

        # Update states
        # ==============================================================================
        key, sim_keys = _generate_simulation_keys(
            key=key,
            ids=model.function_info.query("is_stochastic_next").index,
        )
''',
    '''        key, sim_keys = _generate_simulation_keys(
            key=key,
            ids=model.function_info.query("is_stochastic_next").index,
        )
        _simulation_results.append(
            {
                "value": value + 0 * jax.random.uniform(key),
                "choices": choices,
                "states": states,
            },
        )
''', "stored value touched by the period's key")
brk("F01", ["C03"], "simulate.py", "        states = next_state(\n            **states,\n            **choices,\n            _period=jnp.repeat(period, n_initial_states),",
    "        states = next_state(\n            **states,\n            **choices,\n            _period=jnp.repeat(period + 1, n_initial_states),", "_period + 1 for the transition")
brk("F02", ["C03"], "simulate.py", 'states = {k.removeprefix("next_"): v for k, v in states.items()}',
    'states = {k.removeprefix("next_"): v.astype(initial_states[k.removeprefix("next_")].dtype) for k, v in states.items()}', "dtype cast of the new states")
brk("F03", ["C03"], "next_state.py", "functions_dict = model.functions | stochastic_next | stochastic_weights",
    "functions_dict = stochastic_next | stochastic_weights | model.functions", "samplers overridden by placeholders")
brk("F04", ["C13", "C09"], "simulate.py", "            model_functions=model.functions,\n            params=params,",
    "            model_functions=model.functions,\n            params=model.params,", "targets computed with the template params")
brk("F05", ["C03"], "simulate.py", '                "states": states,\n', '                "states": initial_states,\n', "stored states are always the initial states")
keep("V03", ALL, [("simulate.py", "        dense_argmax, sparse_argmax, value = discrete_policy_calculator(ccv)\n",
                   "        _policy_result = discrete_policy_calculator(ccv)\n        dense_argmax, sparse_argmax, value = _policy_result\n", 1)],
     why="temporary for the policy result")
keep("V03b", ALL, [("simulate.py", "            _period=jnp.repeat(period, n_initial_states),",
                    "            _period=jnp.repeat(period, len(next(iter(initial_states.values())))),", 1)],
     why="n_initial_states spelled out")

# ------------------------------------------------------------------------------ R7 / R8
brk("E01", ["C09"], "solve_brute.py", "import jax\n\nfrom lcm.dispatchers import spacemap\n",
    "import jax\n\nfrom lcm.dispatchers import spacemap\n\n_SOLUTIONS = {}\n", "module-level cache of solutions (part 1: harmless alone)",
    ).update({"edits": [
        {"file": "solve_brute.py", "old": "import jax\n\nfrom lcm.dispatchers import spacemap\n", "new": "import jax\n\nfrom lcm.dispatchers import spacemap\n\n_SOLUTIONS = {}\n", "count": 1},
        {"file": "solve_brute.py", "old": "    return list(reversed(reversed_solution))", "new": "    _SOLUTIONS[len(_SOLUTIONS)] = reversed_solution\n    return list(reversed(reversed_solution))", "count": 1},
    ]})
brk("E02", ["C09"], "input_processing/process_model.py", "raw_functions = deepcopy(model.functions)", "raw_functions = dict(model.functions)",
    "deepcopy removed")
brk("E03", ["C09"], "input_processing/process_model.py", 'return func(**_kwargs, **kwargs["params"][name])', "return func(**_kwargs, **params[name])",
    "closure reads the captured template")
brk("E04", ["C09"], "entry_point.py", "solve_model = jax.jit(_solve_model) if jit else _solve_model",
    'solve_model = jax.jit(_solve_model, static_argnames="params") if jit else _solve_model', "static params")
brk("E05", ["C09"], "solve_brute.py", "import jax\n", "import functools\n\nimport jax\n").update({"edits": [
    {"file": "solve_brute.py", "old": "import jax\n", "new": "import functools\n\nimport jax\n", "count": 1},
    {"file": "solve_brute.py", "old": "def solve_continuous_problem(", "new": "@functools.lru_cache\ndef solve_continuous_problem(", "count": 1},
]})
brk("E06", ["C09"], "simulate.py", "    vf_arr_list = vf_arr_list[1:] + [None]\n", "    vf_arr_list.pop(0)\n    vf_arr_list.append(None)\n",
    "caller's value array list shifted in place")
brk("E07", ["C09"], "input_processing/create_params_template.py", "    return default_params | function_params | stochastic_transition_params",
    "    default_params.update(function_params)\n    default_params.update(stochastic_transition_params)\n    return default_params",
    "mutable default argument mutated and returned")
brk("O01", ["C05", "C10"], "input_processing/util.py", "    if set(order) != set(info.index):", "    order = sorted(order)\n    if set(order) != set(info.index):",
    "canonical order sorted by name")
brk("O02", ["C09"], "model_functions.py", "            kwargs = all_as_kwargs(args, kwargs, arg_names=arg_names)\n\n            states = {k: v for k, v in kwargs.items() if k in state_variables}\n            choices = {k: v for k, v in kwargs.items() if k in choice_variables}\n\n            return current_u_and_f(",
    "            args = all_as_args(args, kwargs, arg_names=arg_names)\n            kwargs = dict(zip(arg_names, args, strict=True))\n\n            states = {k: v for k, v in kwargs.items() if k in state_variables}\n            choices = {k: v for k, v in kwargs.items() if k in choice_variables}\n\n            return current_u_and_f(",
    "hash-ordered arg_names interpreted positionally")
brk("O03", ["C09", "C10"], "solve_brute.py", "        dense_vars=list(state_choice_space.dense_vars),", "        dense_vars=list(set(state_choice_space.dense_vars)),",
    "dense axes in hash order")
brk("O04", ["C10", "C17"], "state_space.py", "    _axis_names = [name for name in model.grids if name in subset]\n    _filter_names",
    "    _axis_names = sorted(subset)\n    _filter_names", "mask axes in alphabetical order")

# ------------------------------------------------------------------------------ R1 / R11
brk("I01", ["C12"], "ndimage.py", "from jax import Array, jit, lax\n", "from jax import Array, jit, lax, util\n", "removed JAX module imported again (D1)")
brk("I02", ["C12"], "discrete_problem.py", "from jax.ops import segment_max\n", "from jax.ops import segment_max, segment_maximum\n", "import of a name that does not exist")
brk("I03", ["C12"], "simulate.py", "out = {key: jnp.concatenate(values) for key, values in dict_of_lists.items()}",
    "out = {key: jnp.concat_all(values) for key, values in dict_of_lists.items()}", "attribute that does not exist in jax.numpy")
brk("S11a", ["C12"], "model_functions.py", "        relevant_functions = [\n            current_u_and_f,\n            next_state,\n            next_weights,\n            scalar_value_function,\n        ]",
    "        relevant_functions = [\n            current_u_and_f,\n            next_weights,\n            scalar_value_function,\n        ]",
    "transition arguments no longer part of u_and_f's signature: new failing classes")

# ------------------------------------------------------------------------------ R12 guards
brk("G01", ["C12"], "user_model.py", "    if model.n_periods < 1:", "    if model.n_periods < 0:", "n_periods = 0 accepted")
brk("G02", ["C16", "C12"], "grids.py", "if valid_start_type and valid_stop_type and start >= stop:", "if valid_start_type and valid_stop_type and start > stop:",
    "start == stop accepted")
brk("G03", ["C16", "C12"], "grids.py", "if not isinstance(n_points, int) or n_points < 1:", "if not isinstance(n_points, int) or n_points < 0:", "n_points = 0 accepted")
brk("G04", ["C12"], "user_model.py", '    if "utility" not in model.functions:', '    if "utility" not in model.functions and False:', "utility check disabled")
brk("G05", ["C12"], "user_model.py", "    if states_and_choices_overlap:\n", "    if len(states_and_choices_overlap) > 1:\n", "single overlapping name accepted")
brk("G07", ["C16", "C12"], "grids.py", "    if values != list(range(len(values))):", "    if sorted(values) != list(range(len(values))):", "codes compared after sorting")
brk("G08", ["C16", "C12"], "grids.py", "    elif isinstance(start, float) and not math.isfinite(start):\n        error_messages.append(\"start must be finite\")\n", "",
    "finiteness check of start removed")
brk("G09", ["C16"], "grid_helpers.py", "    return jnp.linspace(start, stop, n_points)", "    return jnp.linspace(stop, start, n_points)", "linspace arguments swapped")
brk("G10", ["C16", "C12"], "grids.py", "        if self.start <= 0:", "        if self.start < 0:", "log grid with start = 0 accepted")
brk("G11", ["C12"], "input_processing/process_model.py", "                if params.get(name, False):\n                    raise ValueError(",
    "                if params.get(name, False) and False:\n                    raise ValueError(", "filter-with-parameters guard disabled")
keep("V09", ALL, [("grids.py", "if valid_start_type and valid_stop_type and start >= stop:", "if valid_start_type and valid_stop_type and stop <= start:", 1),
                  ("grids.py", "if not isinstance(n_points, int) or n_points < 1:", "if not isinstance(n_points, int) or 1 > n_points:", 1)],
     why="guards written with the operands swapped")

keep("V02", ALL, kind="rename_locals", why="every local variable of every module-level function renamed (x -> x_r)")
keep("V11", ALL, kind="strip_docs", why="docstrings stripped and source regenerated with ast.unparse")

# ------------------------------------------------------------------------------ R10
brk("S01", ["C01", "C09"], "model_functions.py", "            kwargs = all_as_kwargs(args, kwargs, arg_names=arg_names)\n\n            states = {k: v for k, v in kwargs.items() if k in state_variables}\n            choices = {k: v for k, v in kwargs.items() if k in choice_variables}\n\n            u, f = current_u_and_f(",
    "            kwargs = all_as_kwargs(args, kwargs, arg_names=sorted(arg_names))\n\n            states = {k: v for k, v in kwargs.items() if k in state_variables}\n            choices = {k: v for k, v in kwargs.items() if k in choice_variables}\n\n            u, f = current_u_and_f(",
    "all_as_kwargs with another list than the signature's")
brk("S02", ["C12", "C01"], "model_functions.py", 'arg for arg in arg_names if not arg.startswith("next_")', 'arg for arg in arg_names if "next_" not in arg',
    "substring filter (D9 re-introduced)")
brk("S03", ["C01"], "model_functions.py", "states = {k: v for k, v in kwargs.items() if k in state_variables}\n            choices = {k: v for k, v in kwargs.items() if k in choice_variables}\n\n            u, f",
    "states = {k: v for k, v in kwargs.items() if k not in choice_variables}\n            choices = {k: v for k, v in kwargs.items() if k in choice_variables}\n\n            u, f",
    "states selected by exclusion (includes vf_arr, params, indexers)")
brk("S04", ["C01", "C12"], "solve_brute.py", "            state_indexers=state_indexers[period],\n            params=params,\n        )",
    "            state_indexers=state_indexers[period],\n        )", "params not passed to the continuous problem")
brk("S05", ["C02", "C12"], "simulate.py", "        data_scs, data_choice_segments = create_data_scs(\n            states=states,\n            model=model,\n            period=period,\n        )",
    "        data_scs, data_choice_segments = create_data_scs(\n            states=states,\n            model=model,\n        )", "period not passed to create_data_scs")

# ------------------------------------------------------------------------------ benign refactors (must stay silent)
keep("V12", ALL, [("simulate.py", "        choices = {**dense_choices, **sparse_choices, **cont_choices}\n",
                   "        choices = dense_choices | sparse_choices | cont_choices\n", 1)], why="dict merge operator instead of ** display")
keep("V13", ALL, [("solve_brute.py", "        dense_vars=list(state_choice_space.dense_vars),", "        dense_vars=[*state_choice_space.dense_vars],", 1)],
     why="[*x] for list(x)")
keep("V14", ALL, [("simulate.py", "        dense_vars_grid_shape = tuple(\n            len(grid) for grid in data_scs.dense_vars.values()\n        )\n        cont_choice_grid_shape = tuple(\n            len(grid) for grid in continuous_choice_grids[period].values()\n        )\n",
                   "        cont_choice_grid_shape = tuple(\n            len(grid) for grid in continuous_choice_grids[period].values()\n        )\n        dense_vars_grid_shape = tuple(\n            len(grid) for grid in data_scs.dense_vars.values()\n        )\n", 1)],
     why="independent statements reordered")
keep("V15", ALL, [("simulate.py", "        if sparse_argmax is not None:\n            cont_choice_argmax", "        if not (sparse_argmax is None):\n            cont_choice_argmax", 1)],
     why="negated None test")
keep("V16", ALL, [("simulate.py", "        data_scs, data_choice_segments = create_data_scs(\n            states=states,\n            model=model,\n            period=period,\n        )",
                   "        data_scs, data_choice_segments = create_data_scs(states, model, period)", 1)], why="positional call of an internal function")
keep("V17", ALL, [("entry_point.py", "    _solve_model = partial(\n        solve,\n        state_choice_spaces=state_choice_spaces,\n        state_indexers=state_indexers,",
                   "    _solve_model = partial(\n        solve,\n        state_indexers=state_indexers,\n        state_choice_spaces=state_choice_spaces,", 1)], why="keyword arguments reordered")
keep("V18", ALL, [("grids.py", '        error_messages.append("start must be less than stop")', '        error_messages.append("start has to be strictly below stop")', 1),
                  ("user_model.py", '"Number of periods must be a positive integer."', '"n_periods must be >= 1."', 1)], why="error message texts changed")
keep("V19", ALL, [("model_functions.py", "            ccv = (ccvs_at_nodes * node_weights).sum()\n", "            weighted = node_weights * ccvs_at_nodes\n            ccv = jnp.sum(weighted)\n", 1)],
     why="commuted product, function spelling of sum, temporary")
keep("V20", ALL, [("argmax.py", "    _max = jnp.max(a, axis=-1, keepdims=True, initial=initial, where=where)\n", "    _max = a.max(axis=-1, keepdims=True, where=where, initial=initial)\n", 1)],
     why="method spelling of max in the kernel")
keep("V21", ALL, [("simulate.py", '        logger.info("Period: %s", period)\n\n    processed', '        logger.debug("Period %s done", period)\n\n    processed', 1)], why="logging changed")
keep("V22", ALL, [("simulate.py", "    additional_targets=None,\n    seed=12345,\n):", "    additional_targets=None,\n    seed=12345,\n    progress=None,\n):", 1)],
     why="new optional parameter added to simulate")
keep("V23", ALL, [("solve_brute.py", "    n_periods = len(state_choice_spaces)\n", "    n_periods: int = len(state_choice_spaces)\n    assert n_periods >= 1\n", 1)],
     why="annotation and an assertion added")
brk("W01", ["C02", "C13"], "simulate.py", '                "value": value,\n', '                "value": value.astype(jnp.float32).round(3),\n', "reported value rounded")
brk("W02", ["C08", "C02"], "simulate.py", "            _combination_grid[name] = jnp.tile(choice, reps=n_states)", "            _combination_grid[name] = jnp.tile(choice.astype(int), reps=n_states)", "sparse choice grid cast")
