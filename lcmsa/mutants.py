"""Catalogue of self-test variants (one instance broken / one behaviour-preserving edit)."""

VARIANTS = []


def brk(id_, props, file, old, new, why="", count=1, must_fire=None):
    v = {"id": id_, "props": props, "expect": "fire", "why": why,
         "edits": [{"file": file, "old": old, "new": new, "count": count}]}
    if must_fire:
        v["must_fire"] = must_fire
    VARIANTS.append(v)
    return v


def keep(id_, props, edits=None, kind=None, why="", allow_undecided=False):
    v = {"id": id_, "props": props, "expect": "silent", "why": why, "allow_undecided": allow_undecided}
    if kind:
        v["kind"] = kind
    else:
        v["edits"] = [{"file": f, "old": o, "new": n, "count": c} for f, o, n, c in edits]
    VARIANTS.append(v)
    return v


ALL = [f"C{i:02d}" for i in range(1, 21)]

# ------------------------------------------------------------------------------ R2 QA
brk("Q01", ["C05", "C12"], "state_space.py",
    'subset=vi.query("is_dense & ~(is_choice & is_continuous)").index.tolist()',
    'subset=vi.query("is_dense").index.tolist()',
    "dense grid selection keeps continuous choices: mapped twice")
brk("Q02", ["C05", "C17"], "input_processing/util.py",
    '''    order = info.query("is_sparse & is_state").index.tolist()
    order += info.query("is_sparse & is_choice").index.tolist()''',
    '''    order = info.query("is_sparse & is_choice").index.tolist()
    order += info.query("is_sparse & is_state").index.tolist()''',
    "sparse choices before sparse states in the canonical order")
brk("Q03", ["C05", "C14"], "input_processing/util.py",
    '''    order += info.query("is_dense & is_discrete & is_state").index.tolist()
    order += info.query("is_dense & is_discrete & is_choice").index.tolist()
    order += info.query("is_dense & is_continuous & is_state").index.tolist()''',
    '''    order += info.query("is_dense & is_continuous & is_state").index.tolist()
    order += info.query("is_dense & is_discrete & is_state").index.tolist()
    order += info.query("is_dense & is_discrete & is_choice").index.tolist()''',
    "continuous states before discrete states")
brk("Q04", ["C05", "C17"], "state_space.py",
    'n_sparse_states=len(vi.query("is_sparse & is_state")),',
    'n_sparse_states=len(vi.query("is_sparse")),',
    "n_sparse_states counts sparse choices too")
brk("Q05", ["C05", "C14"], "state_space.py",
    'axis_names = vi.query("is_dense & is_state").index.tolist()',
    'axis_names = vi.query("is_state").index.tolist()',
    "axis_names includes restricted states")
brk("Q06", ["C02", "C05"], "simulate.py",
    '"~is_continuous & is_dense & is_choice",',
    '"is_dense & is_choice",',
    "simulate's dense choice axes include continuous choices")
brk("Q07", ["C05"], "input_processing/util.py", "    return info.loc[order]", "    return info.loc[sorted(order)]",
    "canonical order replaced by alphabetical order")
brk("Q08", ["C05", "C01"], "discrete_problem.py",
    '''        "is_dense & ~(is_choice & is_continuous)",
    ).index.tolist()''',
    '''        "is_dense & is_discrete",
    ).index.tolist()''',
    "discrete problem forgets continuous state axes when locating choice axes (harmless for indices before them? no: changes the axis list)")

keep("V01", ALL, kind="unparse", why="ast.unparse round trip of every module")
keep("V05a", ALL, [("state_space.py", 'vi.query("is_dense & ~(is_choice & is_continuous)")',
                    'vi.query("~is_sparse & (is_state | is_discrete)")', 1)],
     why="equivalent query (De Morgan, is_dense <-> ~is_sparse)")
keep("V05b", ALL, [("state_space.py", 'axis_names = vi.query("is_dense & is_state").index.tolist()',
                    'axis_names = vi.query("~is_choice & ~is_sparse").index.tolist()', 1)],
     why="equivalent query")
keep("V05c", ALL, [("simulate.py", '"~is_continuous & is_dense & is_choice",', '"is_discrete & ~is_sparse & ~is_state",', 1)],
     why="equivalent query")

# ------------------------------------------------------------------------------ R3 PER
brk("P01", ["C01"], "solve_brute.py", "for period in reversed(range(n_periods)):", "for period in range(n_periods):",
    "solve loop forward")
brk("P02", ["C01", "C05"], "solve_brute.py", "return list(reversed(reversed_solution))", "return reversed_solution",
    "result not reversed")
brk("P03", ["C01"], "entry_point.py", "    space_infos = space_infos[1:] + [{}]\n", "    space_infos = space_infos + [{}]\n",
    "space_infos not shifted")
brk("P04", ["C01", "C06"], "entry_point.py", "    state_indexers = state_indexers[1:] + [{}]\n", "",
    "state_indexers shift removed (D2 re-introduced)")
brk("P05", ["C06", "C01"], "simulate.py", "    vf_arr_list = vf_arr_list[1:] + [None]\n", "    vf_arr_list = vf_arr_list + [None]\n",
    "vf_arr_list not shifted in simulate")
brk("P06", ["C01", "C11"], "entry_point.py", "    last_period = _mod.n_periods - 1\n", "    last_period = _mod.n_periods\n",
    "is_last_period never true")
brk("P07", ["C01"], "entry_point.py", "            choice_segments=choice_segments[period],",
    "            choice_segments=choice_segments[period - 1],", "emax built with another period's segments")
brk("P08", ["C01"], "solve_brute.py", "            vf_arr=vf_arr,\n            state_indexers=state_indexers[period],",
    "            vf_arr=vf_arr,\n            state_indexers=state_indexers[period - 1],", "indexer of the wrong period in solve")
brk("P09", ["C01", "C11"], "entry_point.py", "            period=period,\n            is_last_period=is_last_period,\n        )\n\n        compute_ccv",
    "            period=period + 1,\n            is_last_period=is_last_period,\n        )\n\n        compute_ccv", "u_and_f built for period+1")
brk("P10", ["C06"], "entry_point.py", "        _target = partial(simulate_model, solve_model=solve_model)",
    "        _target = partial(simulate_model, solve_model=_next_state_simulate)", "solve_and_simulate binds the wrong function")
keep("V06", ALL, [("entry_point.py", "    space_infos = space_infos[1:] + [{}]\n", "    space_infos = [*space_infos[1:], {}]\n", 1)],
     why="shifted list built with a starred display")
keep("V08", ALL, [("solve_brute.py", "return list(reversed(reversed_solution))", "return reversed_solution[::-1]", 1)],
     why="reversal by slicing")
keep("V08b", ALL, [("solve_brute.py", "for period in reversed(range(n_periods)):", "for period in range(n_periods - 1, -1, -1):", 1)],
     why="backward loop written with a negative step")
