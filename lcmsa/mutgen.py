"""Systematic single-edit mutants of the anchored source files (thorough tier).

For a property, every function of its anchor files is mutated with a fixed set of AST
operators (one edit per mutant).  Each mutant that still parses is analysed with the
property's rules in a scratch directory; the evidence records how many were flagged
(REFUTED), how many made the analyser give up (UNDECIDED) and which survived.  Survivors
are either equivalent edits or blind spots; they are listed, never counted as violations.
"""

from __future__ import annotations

import ast
import copy
import json
import os
import random
import shutil
from concurrent.futures import ProcessPoolExecutor
from pathlib import Path

from lcmsa.core import REPO
from lcmsa.report import REFUTED, UNDECIDED, VERIF

CMP_SWAP = {ast.Lt: ast.LtE, ast.LtE: ast.Lt, ast.Gt: ast.GtE, ast.GtE: ast.Gt, ast.Eq: ast.NotEq,
            ast.NotEq: ast.Eq, ast.Is: ast.IsNot, ast.IsNot: ast.Is, ast.In: ast.NotIn, ast.NotIn: ast.In}
BIN_SWAP = {ast.Add: ast.Sub, ast.Sub: ast.Add, ast.Mult: ast.Div, ast.Div: ast.Mult, ast.BitAnd: ast.BitOr,
            ast.BitOr: ast.BitAnd}
ATTR_SWAP = {"max": "min", "min": "max", "sum": "mean", "repeat": "tile", "tile": "repeat",
             "logical_and": "logical_or", "logical_or": "logical_and", "argmax": "argmin", "floor": "ceil",
             "exp": "log", "log": "exp", "segment_max": "segment_min", "segment_sum": "segment_max",
             "startswith": "endswith", "removeprefix": "removesuffix", "keys": "values", "any": "all",
             "append": "remove", "update": "difference_update", "union": "intersection", "linspace": "logspace"}
STR_TWEAK = {"next_": "next", "weight_": "weights_", "_period": "period", "params": "param", "vf_arr": "vf",
             "ij": "xy", "beta": "delta", "utility": "util", "state_indexer": "state_index", "state_index": "state_indexer",
             "__fval__": "__fvalue__", "shocks": "shock", "segment_ids": "segments", "is_state": "is_choice",
             "is_choice": "is_state", "is_sparse": "is_dense", "is_dense": "is_sparse", "is_continuous": "is_discrete",
             "is_discrete": "is_continuous", "solve": "simulate", "feasibility": "feasible", "value": "values",
             "choices": "choice", "states": "state", "period": "periods", "initial_state_id": "id"}


class _Sites(ast.NodeVisitor):
    def __init__(self):
        self.sites = []  # (kind, node, extra)
        self.func = None

    def visit_FunctionDef(self, node):
        prev = self.func
        self.func = node.name if prev is None else f"{prev}.{node.name}"
        # skip docstring
        body = node.body
        if body and isinstance(body[0], ast.Expr) and isinstance(body[0].value, ast.Constant) and isinstance(body[0].value.value, str):
            body = body[1:]
        for i, st in enumerate(body):
            if isinstance(st, (ast.Assign, ast.AugAssign, ast.Expr)) and not isinstance(getattr(st, "value", None), ast.Constant):
                self.sites.append(("del-stmt", st, None, self.func))
            self.visit(st)
        for d in node.decorator_list:
            self.visit(d)
        self.func = prev

    def generic_visit(self, node):
        if self.func is not None:
            f = self.func
            if isinstance(node, ast.Compare) and len(node.ops) == 1 and type(node.ops[0]) in CMP_SWAP:
                self.sites.append(("cmp", node, None, f))
            elif isinstance(node, ast.BinOp) and type(node.op) in BIN_SWAP:
                self.sites.append(("binop", node, None, f))
            elif isinstance(node, ast.Constant) and isinstance(node.value, bool):
                self.sites.append(("bool", node, None, f))
            elif isinstance(node, ast.Constant) and isinstance(node.value, int) and not isinstance(node.value, bool) and abs(node.value) < 5:
                self.sites.append(("int+1", node, None, f))
                self.sites.append(("int-1", node, None, f))
            elif isinstance(node, ast.Constant) and isinstance(node.value, str) and node.value in STR_TWEAK:
                self.sites.append(("str", node, None, f))
            elif isinstance(node, ast.Attribute) and node.attr in ATTR_SWAP:
                self.sites.append(("attr", node, None, f))
            elif isinstance(node, ast.Call):
                if len(node.args) >= 2 and not any(isinstance(a, ast.Starred) for a in node.args):
                    self.sites.append(("swap-args", node, None, f))
                for k in node.keywords:
                    if k.arg is not None:
                        self.sites.append(("drop-kw", node, k.arg, f))
            elif isinstance(node, (ast.If, ast.IfExp)):
                self.sites.append(("negate", node, None, f))
            elif isinstance(node, ast.Subscript) and isinstance(node.slice, ast.Slice):
                self.sites.append(("slice", node, None, f))
            elif isinstance(node, ast.UnaryOp) and isinstance(node.op, (ast.Not, ast.Invert)):
                self.sites.append(("drop-not", node, None, f))
            elif isinstance(node, ast.Call) and False:
                pass
            if isinstance(node, ast.Call) and isinstance(node.func, ast.Name) and node.func.id in ("reversed", "sorted", "list", "tuple", "set") and len(node.args) == 1 and not node.keywords:
                self.sites.append(("unwrap", node, None, f))
        super().generic_visit(node)


def _apply(kind, node, extra):  # noqa: C901, PLR0912
    if kind == "cmp":
        node.ops = [CMP_SWAP[type(node.ops[0])]()]
    elif kind == "binop":
        node.op = BIN_SWAP[type(node.op)]()
    elif kind == "bool":
        node.value = not node.value
    elif kind == "int+1":
        node.value += 1
    elif kind == "int-1":
        node.value -= 1
    elif kind == "str":
        node.value = STR_TWEAK[node.value]
    elif kind == "attr":
        node.attr = ATTR_SWAP[node.attr]
    elif kind == "swap-args":
        node.args[0], node.args[1] = node.args[1], node.args[0]
    elif kind == "drop-kw":
        node.keywords = [k for k in node.keywords if k.arg != extra]
    elif kind == "negate":
        node.test = ast.UnaryOp(op=ast.Not(), operand=node.test)
    elif kind == "slice":
        s = node.slice
        if s.lower is not None and s.upper is None:
            s.upper, s.lower = ast.UnaryOp(op=ast.USub(), operand=s.lower), None
        elif s.upper is not None and s.lower is None:
            s.lower, s.upper = s.upper, None
        else:
            s.step = ast.Constant(2)
    elif kind == "drop-not":
        return "replace-with-operand"
    elif kind == "unwrap":
        return "replace-with-arg"
    elif kind == "del-stmt":
        return "delete"
    return None


def generate(rel_file: str, source: str, only_funcs=None):
    """Yield (description, mutated source) for every site of the file."""
    tree = ast.parse(source)
    v = _Sites()
    v.visit(tree)
    n = len(v.sites)
    for i in range(n):
        if only_funcs is not None and v.sites[i][3].split(".")[0] not in only_funcs:
            continue
        t = copy.deepcopy(tree)
        v2 = _Sites()
        v2.visit(t)
        kind, node, extra, func = v2.sites[i]
        line = getattr(node, "lineno", 0)
        how = _apply(kind, node, extra)
        if how is not None:
            class R(ast.NodeTransformer):
                def visit(self, n_):
                    if n_ is node:
                        if how == "delete":
                            return ast.Pass()
                        if how == "replace-with-operand":
                            return n_.operand
                        if how == "replace-with-arg":
                            return n_.args[0]
                    return super().visit(n_)

            t = R().visit(t)
        ast.fix_missing_locations(t)
        try:
            out = ast.unparse(t)
            ast.parse(out)
        except Exception:  # noqa: BLE001, S112
            continue
        if ast.dump(ast.parse(out)) == ast.dump(tree):
            continue
        yield f"{rel_file}:{line} {func} {kind}{':' + extra if extra else ''}", out


def _run(args):
    prop, rel_file, desc, mutated = args
    if prop == "ALL":
        return _run_all(rel_file, desc, mutated)
    from lcmsa import registry, selftest
    from lcmsa.__main__ import run_property
    from lcmsa.core import Program
    from lcmsa.report import load_known

    root = selftest._scratch_root()  # noqa: SLF001
    try:
        selftest._copy_tree(root)  # noqa: SLF001
        (root / "src" / "lcm" / rel_file).write_text(mutated)
        prog = Program(root)
        _st, res, _ = run_property(prop, "quick", 0, prog, {}, quiet=True, write=False)
        known = {k.key for k in load_known() if k.prop == prop}
        fired = [o.key for o in res.obs if o.status == REFUTED and o.key not in known]
        und = [o.key for o in res.obs if o.status == UNDECIDED]
        return desc, "killed" if fired else "undecided" if und else "survived", (fired or und)[:2]
    except Exception as e:  # noqa: BLE001
        return desc, "error", [f"{type(e).__name__}: {e}"]
    finally:
        shutil.rmtree(root, ignore_errors=True)


def _run_all(rel_file, desc, mutated):
    from lcmsa import registry, selftest
    from lcmsa.__main__ import run_property
    from lcmsa.core import Program
    from lcmsa.report import load_known

    root = selftest._scratch_root()  # noqa: SLF001
    try:
        selftest._copy_tree(root)  # noqa: SLF001
        (root / "src" / "lcm" / rel_file).write_text(mutated)
        prog = Program(root)
        cache: dict = {}
        fired, und = [], []
        for prop in sorted(registry.PROPERTIES):
            _st, res, _ = run_property(prop, "quick", 0, prog, cache, quiet=True, write=False)
            known = {k.key for k in load_known() if k.prop == prop}
            fired += [f"{prop}:{o.key}" for o in res.obs if o.status == REFUTED and o.key not in known]
            und += [f"{prop}:{o.key}" for o in res.obs if o.status == UNDECIDED]
        return desc, "killed" if fired else "undecided" if und else "survived", (fired or und)[:2]
    except Exception as e:  # noqa: BLE001
        return desc, "error", [f"{type(e).__name__}: {e}"]
    finally:
        shutil.rmtree(root, ignore_errors=True)


def run_all(seed=0, limit=4000, jobs=None):
    work = []
    base = REPO / "src" / "lcm"
    for p in sorted(base.rglob("*.py")):
        rel = str(p.relative_to(base))
        if rel.startswith("sandbox") or rel in ("_version.py", "_config.py"):
            continue
        for desc, mutated in generate(rel, p.read_text()):
            work.append(("ALL", rel, desc, mutated))
    rnd = random.Random(seed)
    if len(work) > limit:
        work = rnd.sample(work, limit)
    jobs = jobs or min(16, os.cpu_count() or 4)
    with ProcessPoolExecutor(max_workers=jobs) as ex:
        results = list(ex.map(_run, work, chunksize=4))
    summary = {"generated": len(results), "killed": 0, "undecided": 0, "survived": 0, "error": 0}
    rows = []
    for desc, outcome, keys in results:
        summary[outcome] += 1
        rows.append((outcome, desc, keys))
    return summary, rows


def run(prop: str, anchor_files: list[str], seed: int = 0, limit: int = 400, jobs: int | None = None):
    work = []
    mech = mechanisms_of(prop)
    for rel, funcs in sorted(mech.items()):
        p = REPO / "src" / "lcm" / rel
        if not p.exists():
            continue
        for desc, mutated in generate(rel, p.read_text(), funcs):
            work.append((prop, rel, desc, mutated))
    rnd = random.Random(seed)
    if len(work) > limit:
        work = rnd.sample(work, limit)
    jobs = jobs or min(16, os.cpu_count() or 4)
    with ProcessPoolExecutor(max_workers=jobs) as ex:
        results = list(ex.map(_run, work, chunksize=4))
    summary = {"generated": len(results), "killed": 0, "undecided": 0, "survived": 0, "error": 0}
    survivors = []
    for desc, outcome, keys in results:
        summary[outcome] += 1
        if outcome in ("survived", "error"):
            survivors.append(desc if outcome == "survived" else f"{desc} [{keys}]")
    summary["survivors"] = sorted(survivors)
    return summary


def mechanisms_of(prop):
    """{file relative to src/lcm: {function names}} from the property's anchors.mechanism[].where."""
    import re

    out = {}
    for line in (VERIF / "properties.jsonl").read_text().splitlines():
        d = json.loads(line)
        if d["id"] != prop:
            continue
        for m in d["anchors"]["mechanism"]:
            cur = None
            for part in m["where"].split(" / "):
                part = part.strip()
                mm = re.match(r"([\w/]+\.py):(.*)", part)
                if mm:
                    cur, part = mm.group(1), mm.group(2)
                name = re.match(r"\s*([A-Za-z_]\w*)", part)
                if cur and name:
                    out.setdefault(cur, set()).add(name.group(1))
    return out


def anchors_of(prop):
    for line in (VERIF / "properties.jsonl").read_text().splitlines():
        d = json.loads(line)
        if d["id"] == prop:
            return d["anchors"]["files"]
    return []


if __name__ == "__main__":
    import sys

    prop = sys.argv[1]
    if prop == "ALL":
        summ, rows = run_all(limit=int(sys.argv[2]) if len(sys.argv) > 2 else 4000)
        print(summ)
        for outcome, desc, keys in sorted(rows):
            if outcome != "killed":
                print(f"  {outcome}: {desc} {keys if outcome != 'survived' else ''}")
        sys.exit(0)
    s = run(prop, anchors_of(prop), limit=int(sys.argv[2]) if len(sys.argv) > 2 else 400)
    print({k: v for k, v in s.items() if k != "survivors"})
    for x in s["survivors"]:
        print("  survived:", x)
