"""Reference forms of lcm's leaf kernels.  NEVER imported or executed: this file is parsed
by the analyser and compared, after normalisation (temporaries inlined, helper calls
inlined, arithmetic in polynomial normal form, jnp function/method spellings unified),
with the corresponding function of the tree under analysis.  Parameter names are matched
by position, so renaming parameters or locals in lcm does not matter.
"""
# ruff: noqa
import functools
import itertools
import operator

import inspect

import jax
import jax.numpy as jnp
import numpy as np
import pandas as pd
from dags import concatenate_functions
from dags.signature import with_signature
from jax.ops import segment_max

from lcm.dispatchers import productmap
from lcm.ndimage import map_coordinates
from lcm.state_space import _combine_masks


# ------------------------------------------------------------------ argmax.py (C18, C02)
def _move_axes_to_back(a, axes):
    front_axes = sorted(set(range(a.ndim)) - set(axes))
    return a.transpose((*front_axes, *axes))


def _flatten_last_n_axes(a, n):
    return a.reshape(*a.shape[:-n], -1)


def argmax(a, axis=None, initial=None, where=None):
    if axis is None:
        axis = tuple(range(a.ndim))
    elif isinstance(axis, int):
        axis = (axis,)
    a = _move_axes_to_back(a, axes=axis)
    a = _flatten_last_n_axes(a, n=len(axis))
    if where is not None:
        where = _move_axes_to_back(where, axes=axis)
        where = _flatten_last_n_axes(where, n=len(axis))
    _max = jnp.max(a, axis=-1, keepdims=True, initial=initial, where=where)
    max_value_mask = a == _max
    if where is not None:
        max_value_mask = jnp.logical_and(max_value_mask, where)
    index = jnp.argmax(max_value_mask, axis=-1)
    return index, _max.reshape(index.shape)


def segment_argmax(data, segment_ids, num_segments):
    segment_maximum = segment_max(
        data=data, segment_ids=segment_ids, num_segments=num_segments, indices_are_sorted=True
    )
    segment_maximum_expanded = segment_maximum[segment_ids]
    max_value_mask = data == segment_maximum_expanded
    arange = jnp.arange(data.shape[0])
    reshaped = arange.reshape(-1, *([1] * (data.ndim - 1)))
    segment_argmax_ids = jnp.broadcast_to(reshaped, data.shape)
    max_value_indices = max_value_mask * segment_argmax_ids
    index = segment_max(
        data=max_value_indices, segment_ids=segment_ids, num_segments=num_segments, indices_are_sorted=True
    )
    return index, segment_maximum


# ------------------------------------------------------------------ discrete_problem.py (C18, C01, C20)
def _solve_discrete_problem_no_shocks(cc_values, choice_axes, choice_segments, params):
    out = cc_values
    if choice_axes is not None:
        out = out.max(axis=choice_axes)
    if choice_segments is not None:
        out = segment_max(data=out, indices_are_sorted=True, **choice_segments)
    return out


def _segment_logsumexp(a, segment_info):
    segmax = jax.ops.segment_max(data=a, indices_are_sorted=True, **segment_info)
    exp = jnp.exp(a - segmax[segment_info["segment_ids"]])
    summed = jax.ops.segment_sum(data=exp, indices_are_sorted=True, **segment_info)
    return segmax + jnp.log(summed)


def _segment_extreme_value_emax_over_first_axis(a, scale, segment_info):
    return scale * _segment_logsumexp(a / scale, segment_info)


def _calculate_emax_extreme_value_shocks(values, choice_axes, choice_segments, params):
    scale = params["additive_utility_shock"]["scale"]
    out = values
    if choice_axes is not None:
        out = scale * jax.scipy.special.logsumexp(out / scale, axis=choice_axes)
    if choice_segments is not None:
        out = _segment_extreme_value_emax_over_first_axis(out, scale, choice_segments)
    return out


# ------------------------------------------------------------------ ndimage.py / grid_helpers.py (C15, C14, C16)
def _compute_indices_and_weights(coordinate, input_size):
    lower_index = jnp.clip(jnp.floor(coordinate), 0, input_size - 2).astype(jnp.int32)
    upper_weight = coordinate - lower_index
    lower_weight = 1 - upper_weight
    return [(lower_index, lower_weight), (lower_index + 1, upper_weight)]


def _multiply_all(arrs):
    return functools.reduce(operator.mul, arrs)


def _sum_all(arrs):
    return functools.reduce(operator.add, arrs)


def get_linspace_coordinate(value, start, stop, n_points):
    step_length = (stop - start) / (n_points - 1)
    return (value - start) / step_length


def linspace(start, stop, n_points):
    return jnp.linspace(start, stop, n_points)


def logspace(start, stop, n_points):
    start_linear = jnp.log(start)
    stop_linear = jnp.log(stop)
    return jnp.logspace(start_linear, stop_linear, n_points, base=jnp.e)


def get_logspace_coordinate(value, start, stop, n_points):
    start_linear = jnp.log(start)
    stop_linear = jnp.log(stop)
    value_linear = jnp.log(value)
    coordinate_in_linear_space = get_linspace_coordinate(value_linear, start_linear, stop_linear, n_points)
    rank_lower_gridpoint = jnp.floor(coordinate_in_linear_space)
    rank_upper_gridpoint = rank_lower_gridpoint + 1
    step_length_linear = (stop_linear - start_linear) / (n_points - 1)
    lower_gridpoint = jnp.exp(start_linear + step_length_linear * rank_lower_gridpoint)
    upper_gridpoint = jnp.exp(start_linear + step_length_linear * rank_upper_gridpoint)
    logarithmic_step_size_at_coordinate = upper_gridpoint - lower_gridpoint
    distance_from_lower_gridpoint = value - lower_gridpoint
    decimal_part = distance_from_lower_gridpoint / logarithmic_step_size_at_coordinate
    return rank_lower_gridpoint + decimal_part


# ------------------------------------------------------------------ random_choice.py / simulate.py (C04, C08, C13, C02)
def random_choice(key, probs, labels):
    keys = jax.random.split(key, probs.shape[0])
    return _vmapped_random_choice(keys, probs, labels)


@functools.partial(jax.vmap, in_axes=(0, 0, None))
def _vmapped_random_choice(key, probs, labels):
    return jax.random.choice(key, a=labels, p=probs)


def _generate_simulation_keys(key, ids):
    keys = jax.random.split(key, num=len(ids) + 1)
    key = keys[0]
    simulation_keys = dict(zip(ids, keys[1:], strict=True))
    return key, simulation_keys


def create_choice_segments(mask, n_sparse_states):
    n_choice_combinations = len(mask) // n_sparse_states
    state_ids = jnp.repeat(jnp.arange(n_sparse_states), repeats=n_choice_combinations)
    segments = state_ids[mask]
    return {"segment_ids": jnp.array(segments), "num_segments": len(jnp.unique(segments))}


def dict_product(d):
    arrays = list(d.values())
    grid = jnp.meshgrid(*arrays, indexing="ij")
    stacked = jnp.stack(grid, axis=-1).reshape(-1, len(arrays))
    return dict(zip(d.keys(), list(stacked.T), strict=True)), len(stacked)


def _as_data_frame(processed, n_periods):
    n_initial_states = len(processed["value"]) // n_periods
    index = pd.MultiIndex.from_product(
        [range(n_periods), range(n_initial_states)], names=["period", "initial_state_id"]
    )
    return pd.DataFrame(processed, index=index)


def _filter_ccv_policy_body(ccv_policy, dense_argmax, dense_vars_grid_shape):
    if dense_argmax is None:
        out = ccv_policy
    else:
        indices = jnp.unravel_index(dense_argmax, shape=dense_vars_grid_shape)
        out = ccv_policy[indices]
    return out


vmapped_unravel_index = jax.vmap(jnp.unravel_index, in_axes=(0, None))


def retrieve_non_sparse_choices(indices, grids, grid_shape):
    if indices is None:
        out = {}
    else:
        indices = vmapped_unravel_index(indices, grid_shape)
        out = {name: grid[index] for (name, grid), index in zip(grids.items(), indices, strict=True)}
    return out


# ------------------------------------------------------------------ functools.py (C19, C10)
def convert_kwargs_to_args(kwargs, parameters):
    sorted_kwargs = dict(sorted(kwargs.items(), key=lambda kw: parameters.index(kw[0])))
    return list(sorted_kwargs.values())


def all_as_kwargs(args, kwargs, arg_names):
    return dict(zip(arg_names[: len(args)], args, strict=True)) | kwargs


def all_as_args(args, kwargs, arg_names):
    return args + tuple(convert_kwargs_to_args(kwargs, arg_names))


# ------------------------------------------------------------------ state_space.py (C17)
def _create_value_grid(grids, subset):
    return {name: grid for name, grid in grids.items() if name in subset}


# ------------------------------------------------------------------ state_space.py (C17, C05)
def create_filter_mask(model, subset, fixed_inputs=None, *, jit_filter):
    if subset is None:
        subset = model.variable_info.query("is_sparse").index.tolist()
    fixed_inputs = {} if fixed_inputs is None else fixed_inputs
    _axis_names = [name for name in model.grids if name in subset]
    _filter_names = model.function_info.query("is_filter").index.tolist()
    _scalar_filter = concatenate_functions(
        functions=model.functions, targets=_filter_names, aggregator=jnp.logical_and
    )
    _filter = productmap(_scalar_filter, variables=_axis_names)
    _valid_args = set(inspect.signature(_filter).parameters.keys())
    _potential_kwargs = {**model.grids, **fixed_inputs}
    kwargs = {k: v for k, v in _potential_kwargs.items() if k in _valid_args}
    if jit_filter:
        _filter = jax.jit(_filter)
    return _filter(**kwargs)


def create_combination_grid(grids, masks, subset=None):
    _subset = list(grids) if subset is None else subset
    _axis_names = [name for name in grids if name in _subset]
    _grids = {name: jnp.array(grids[name]) for name in _axis_names}
    _mask_np = np.array(_combine_masks(masks))
    _all_combis = jnp.meshgrid(*_grids.values(), indexing="ij")
    return {name: arr[_mask_np] for name, arr in zip(_axis_names, _all_combis, strict=True)}


def create_indexers_and_segments(mask, n_sparse_states, fill_value=-1):
    mask = np.array(mask)
    choice_axes = tuple(range(n_sparse_states, mask.ndim))
    is_feasible_state = mask.any(axis=choice_axes)
    n_feasible_states = np.count_nonzero(is_feasible_state)
    state_indexer = np.full(is_feasible_state.shape, fill_value)
    state_indexer[is_feasible_state] = np.arange(n_feasible_states)
    reduced_mask = mask[is_feasible_state]
    counter = reduced_mask.cumsum().reshape(reduced_mask.shape) - 1
    state_choice_indexer = np.full(reduced_mask.shape, fill_value)
    state_choice_indexer[reduced_mask] = counter[reduced_mask]
    new_choice_axes = tuple(range(1, mask.ndim - n_sparse_states + 1))
    n_choices = np.count_nonzero(reduced_mask, new_choice_axes)
    segments = np.repeat(np.arange(n_feasible_states), n_choices)
    return (
        jnp.array(state_indexer),
        jnp.array(state_choice_indexer),
        {"segment_ids": jnp.array(segments), "num_segments": n_feasible_states},
    )


# ------------------------------------------------------------------ closures made by small factories
def _get_stochastic_weight_function(raw_func, name, variable_info):
    function_parameters = list(inspect.signature(raw_func).parameters)
    invalid = {
        arg for arg in function_parameters if arg != "_period" and not variable_info.loc[arg, "is_discrete"]
    }
    if invalid:
        raise ValueError("message")
    new_kwargs = [*function_parameters, "params"]

    @with_signature(args=new_kwargs)
    def weight_func(*args, **kwargs):
        args = all_as_args(args, kwargs, arg_names=new_kwargs)
        params = args[-1]
        indices = args[:-1]
        return params["shocks"][name][*indices]

    return weight_func


def _get_stochastic_next_function(raw_func, grid):
    @functools.wraps(raw_func)
    def next_func(*args, **kwargs):
        return grid

    return next_func


def _replace_func_parameters_by_params(func, params, name):
    old_signature = list(inspect.signature(func).parameters)
    new_kwargs = [p for p in old_signature if p not in params[name]] + ["params"]

    @with_signature(args=new_kwargs)
    @functools.wraps(func)
    def processed_func(*args, **kwargs):
        kwargs = all_as_kwargs(args, kwargs, arg_names=new_kwargs)
        _kwargs = {k: v for k, v in kwargs.items() if k in new_kwargs and k != "params"}
        return func(**_kwargs, **kwargs["params"][name])

    return processed_func


def _add_dummy_params_argument(func):
    old_signature = list(inspect.signature(func).parameters)
    new_kwargs = [*old_signature, "params"]

    @with_signature(args=new_kwargs)
    @functools.wraps(func)
    def processed_func(*args, **kwargs):
        kwargs = all_as_kwargs(args, kwargs, arg_names=new_kwargs)
        _kwargs = {k: v for k, v in kwargs.items() if k != "params"}
        return func(**_kwargs)

    return processed_func


def _get_stochastic_next_func(name, grids):
    arg_names = ["keys", f"weight_{name}"]
    labels = grids[name.removeprefix("next_")]

    @with_signature(args=arg_names)
    def _next_stochastic_state(*args, **kwargs):
        keys, weights = all_as_args(args, kwargs, arg_names=arg_names)
        return random_choice(key=keys[name], probs=weights, labels=labels)

    return _next_stochastic_state


def get_multiply_weights(stochastic_variables):
    arg_names = [f"weight_next_{var}" for var in stochastic_variables]

    @with_signature(args=arg_names)
    def _outer(*args, **kwargs):
        args = all_as_args(args, kwargs, arg_names=arg_names)
        return jnp.prod(jnp.array(args))

    return productmap(_outer, variables=arg_names)


def _get_label_translator(in_name):
    @with_signature(args=[in_name])
    def translate_label(*args, **kwargs):
        kwargs = all_as_kwargs(args, kwargs, arg_names=[in_name])
        return kwargs[in_name]

    return translate_label


def _get_lookup_function(array_name, axis_names):
    arg_names = [*axis_names, array_name]

    @with_signature(args=arg_names)
    def lookup_wrapper(*args, **kwargs):
        kwargs = all_as_kwargs(args, kwargs, arg_names=arg_names)
        positions = tuple(kwargs[var] for var in axis_names)
        arr = kwargs[array_name]
        return arr[positions]

    return lookup_wrapper


def _get_coordinate_finder(in_name, grid):
    @with_signature(args=[in_name])
    def find_coordinate(*args, **kwargs):
        kwargs = all_as_kwargs(args, kwargs, arg_names=[in_name])
        return grid.get_coordinate(kwargs[in_name])

    return find_coordinate


def _get_interpolator(name_of_values_on_grid, axis_names):
    arg_names = [name_of_values_on_grid, *axis_names]

    @with_signature(args=arg_names)
    def interpolate(*args, **kwargs):
        kwargs = all_as_kwargs(args, kwargs, arg_names=arg_names)
        coordinates = jnp.array([kwargs[var] for var in axis_names])
        return map_coordinates(input=kwargs[name_of_values_on_grid], coordinates=coordinates)

    return interpolate
