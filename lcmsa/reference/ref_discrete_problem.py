"""Reference forms for lcm.discrete_problem -- generated from reviewed commit e70c4c0 by tools/make_reference.py.
NEVER imported or executed; parsed by the analyser only."""
# ruff: noqa
from collections.abc import Callable
from functools import partial
import jax
import jax.numpy as jnp
import pandas as pd
from jax import Array
from jax.ops import segment_max
from lcm.typing import ParamsDict, SegmentInfo, ShockType
from lcm.discrete_problem import (get_solve_discrete_problem, _solve_discrete_problem_no_shocks, _calculate_emax_extreme_value_shocks, _segment_extreme_value_emax_over_first_axis, _segment_logsumexp, _determine_dense_discrete_choice_axes)


def get_solve_discrete_problem(*, random_utility_shock_type, variable_info, is_last_period, choice_segments):
    if is_last_period:
        variable_info = variable_info.query('~is_auxiliary')
    choice_axes = _determine_dense_discrete_choice_axes(variable_info)
    if random_utility_shock_type == ShockType.NONE:
        func = _solve_discrete_problem_no_shocks
    elif random_utility_shock_type == ShockType.EXTREME_VALUE:
        raise NotImplementedError('Extreme value shocks are not yet implemented.')
    else:
        raise ValueError(f'Invalid shock_type: {random_utility_shock_type}.')
    return partial(func, choice_axes=choice_axes, choice_segments=choice_segments)


def _determine_dense_discrete_choice_axes(variable_info):
    has_sparse = variable_info['is_sparse'].any()
    dense_vars = variable_info.query('is_dense & ~(is_choice & is_continuous)').index.tolist()
    axes = ['__sparse__', *dense_vars] if has_sparse else dense_vars
    choice_vars = set(variable_info.query('is_choice').index.tolist())
    choice_indices = tuple((i for i, ax in enumerate(axes) if ax in choice_vars))
    return choice_indices if choice_indices else None

