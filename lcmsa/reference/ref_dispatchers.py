"""Reference forms for lcm.dispatchers -- generated from reviewed commit e70c4c0 by tools/make_reference.py.
NEVER imported or executed; parsed by the analyser only."""
# ruff: noqa
import inspect
from collections.abc import Callable
from typing import Literal, TypeVar
from jax import Array, vmap
from lcm.functools import allow_args, allow_only_kwargs
from lcm.dispatchers import (F, spacemap, vmap_1d, productmap, _base_productmap)


def spacemap(func, dense_vars, sparse_vars, *, put_dense_first):
    overlap = set(dense_vars).intersection(sparse_vars)
    if overlap:
        raise ValueError(f'Dense and sparse variables must be disjoint. Overlap: {overlap}')
    duplicates = {v for v in dense_vars if dense_vars.count(v) > 1}
    if duplicates:
        raise ValueError(f'Same argument provided more than once in dense variables: {duplicates}')
    duplicates = {v for v in sparse_vars if sparse_vars.count(v) > 1}
    if duplicates:
        raise ValueError(f'Same argument provided more than once in sparse variables: {duplicates}')
    func = allow_args(func)
    if not sparse_vars:
        vmapped = _base_productmap(func, dense_vars)
    elif put_dense_first:
        vmapped = vmap_1d(func, variables=sparse_vars, callable_with='only_args')
        vmapped = _base_productmap(vmapped, dense_vars)
    else:
        vmapped = _base_productmap(func, dense_vars)
        vmapped = vmap_1d(vmapped, variables=sparse_vars, callable_with='only_args')
    vmapped.__signature__ = inspect.signature(func)
    return allow_only_kwargs(vmapped)


def vmap_1d(func, variables, *, callable_with='only_kwargs'):
    duplicates = {v for v in variables if variables.count(v) > 1}
    if duplicates:
        raise ValueError(f'Same argument provided more than once in variables: {duplicates}')
    signature = inspect.signature(func)
    parameters = list(signature.parameters)
    positions = [parameters.index(var) for var in variables]
    in_axes_for_vmap = [None] * len(parameters)
    for p in positions:
        in_axes_for_vmap[p] = 0
    vmapped = vmap(func, in_axes=in_axes_for_vmap)
    vmapped.__signature__ = signature
    if callable_with == 'only_kwargs':
        out = allow_only_kwargs(vmapped)
    elif callable_with == 'only_args':
        out = vmapped
    else:
        raise ValueError(f"Invalid callable_with option: {callable_with}. Possible options are ('only_args', 'only_kwargs')")
    return out


def productmap(func, variables):
    func = allow_args(func)
    duplicates = {v for v in variables if variables.count(v) > 1}
    if duplicates:
        raise ValueError(f'Same argument provided more than once in variables: {duplicates}')
    signature = inspect.signature(func)
    vmapped = _base_productmap(func, variables)
    vmapped.__signature__ = signature
    return allow_only_kwargs(vmapped)


def _base_productmap(func, product_axes):
    signature = inspect.signature(func)
    parameters = list(signature.parameters)
    positions = [parameters.index(ax) for ax in product_axes]
    vmap_specs = []
    for pos in reversed(positions):
        spec = [None] * len(parameters)
        spec[pos] = 0
        vmap_specs.append(spec)
    vmapped = func
    for spec in vmap_specs:
        vmapped = vmap(vmapped, in_axes=spec)
    return vmapped

