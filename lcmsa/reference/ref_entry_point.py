"""Reference forms for lcm.entry_point -- generated from reviewed commit e70c4c0 by tools/make_reference.py.
NEVER imported or executed; parsed by the analyser only."""
# ruff: noqa
import functools
from collections.abc import Callable
from functools import partial
from typing import Literal, cast
import jax
import jax.numpy as jnp
from lcm.argmax import argmax
from lcm.discrete_problem import get_solve_discrete_problem
from lcm.dispatchers import productmap
from lcm.input_processing import process_model
from lcm.logging import get_logger
from lcm.model_functions import get_utility_and_feasibility_function
from lcm.next_state import get_next_state_function
from lcm.simulate import simulate
from lcm.solve_brute import solve
from lcm.state_space import create_state_choice_space
from lcm.typing import ParamsDict
from lcm.user_model import Model
from lcm.entry_point import (get_lcm_function, create_compute_conditional_continuation_value, create_compute_conditional_continuation_policy)


def get_lcm_function(model, targets='solve', *, debug_mode=True, jit=True):
    if targets not in {'solve', 'simulate', 'solve_and_simulate'}:
        raise NotImplementedError
    _mod = process_model(model)
    last_period = _mod.n_periods - 1
    logger = get_logger(debug_mode)
    _subset = _mod.variable_info.query('is_continuous & is_choice').index.tolist()
    _choice_grids = {k: _mod.grids[k] for k in _subset}
    continuous_choice_grids = [_choice_grids] * _mod.n_periods
    state_choice_spaces = []
    state_indexers = []
    space_infos = []
    compute_ccv_functions = []
    compute_ccv_policy_functions = []
    choice_segments = []
    emax_calculators = []
    for period in range(_mod.n_periods):
        is_last_period = period == last_period
        sc_space, space_info, state_indexer, segments = create_state_choice_space(model=_mod, period=period, is_last_period=is_last_period, jit_filter=False)
        state_choice_spaces.append(sc_space)
        choice_segments.append(segments)
        state_indexers.append(state_indexer)
        space_infos.append(space_info)
    space_infos = space_infos[1:] + [{}]
    state_indexers = state_indexers[1:] + [{}]
    for period in range(_mod.n_periods):
        is_last_period = period == last_period
        u_and_f = get_utility_and_feasibility_function(model=_mod, space_info=space_infos[period], name_of_values_on_grid='vf_arr', period=period, is_last_period=is_last_period)
        compute_ccv = create_compute_conditional_continuation_value(utility_and_feasibility=u_and_f, continuous_choice_variables=list(_choice_grids))
        compute_ccv_functions.append(compute_ccv)
        compute_ccv_argmax = create_compute_conditional_continuation_policy(utility_and_feasibility=u_and_f, continuous_choice_variables=list(_choice_grids))
        compute_ccv_policy_functions.append(compute_ccv_argmax)
        calculator = get_solve_discrete_problem(random_utility_shock_type=_mod.random_utility_shocks, variable_info=_mod.variable_info, is_last_period=is_last_period, choice_segments=choice_segments[period])
        emax_calculators.append(calculator)
    _solve_model = partial(solve, state_choice_spaces=state_choice_spaces, state_indexers=state_indexers, continuous_choice_grids=continuous_choice_grids, compute_ccv_functions=compute_ccv_functions, emax_calculators=emax_calculators, logger=logger)
    solve_model = jax.jit(_solve_model) if jit else _solve_model
    _next_state_simulate = get_next_state_function(model=_mod, target='simulate')
    simulate_model = partial(simulate, state_indexers=state_indexers, continuous_choice_grids=continuous_choice_grids, compute_ccv_policy_functions=compute_ccv_policy_functions, model=_mod, next_state=jax.jit(_next_state_simulate), logger=logger)
    if targets == 'solve':
        _target = solve_model
    elif targets == 'simulate':
        _target = simulate_model
    elif targets == 'solve_and_simulate':
        _target = partial(simulate_model, solve_model=solve_model)
    return (cast(Callable, _target), _mod.params)


def create_compute_conditional_continuation_value(utility_and_feasibility, continuous_choice_variables):
    if continuous_choice_variables:
        utility_and_feasibility = productmap(func=utility_and_feasibility, variables=continuous_choice_variables)

    @functools.wraps(utility_and_feasibility)
    def compute_ccv(*args, **kwargs):
        u, f = utility_and_feasibility(*args, **kwargs)
        return u.max(where=f, initial=-jnp.inf)
    return compute_ccv


def create_compute_conditional_continuation_policy(utility_and_feasibility, continuous_choice_variables):
    if continuous_choice_variables:
        utility_and_feasibility = productmap(func=utility_and_feasibility, variables=continuous_choice_variables)

    @functools.wraps(utility_and_feasibility)
    def compute_ccv_policy(*args, **kwargs):
        u, f = utility_and_feasibility(*args, **kwargs)
        _argmax, _max = argmax(u, where=f, initial=-jnp.inf)
        return (_argmax, _max)
    return compute_ccv_policy

