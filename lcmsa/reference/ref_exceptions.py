"""Reference forms for lcm.exceptions -- generated from reviewed commit e70c4c0 by tools/make_reference.py.
NEVER imported or executed; parsed by the analyser only."""
# ruff: noqa
from lcm.exceptions import (ModelInitilizationError, GridInitializationError, format_messages)


def format_messages(errors):
    if isinstance(errors, str):
        formatted = errors
    elif len(errors) == 1:
        formatted = errors[0]
    else:
        enumerated = '\n\n'.join([f'{i}. {error}' for i, error in enumerate(errors, 1)])
        formatted = f'The following errors occurred:\n\n{enumerated}'
    return formatted

