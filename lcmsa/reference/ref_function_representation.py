"""Reference forms for lcm.function_representation -- generated from reviewed commit e70c4c0 by tools/make_reference.py.
NEVER imported or executed; parsed by the analyser only."""
# ruff: noqa
from collections.abc import Callable
import jax.numpy as jnp
from dags import concatenate_functions
from dags.signature import with_signature
from jax import Array
from lcm.functools import all_as_kwargs
from lcm.grids import ContinuousGrid
from lcm.interfaces import SpaceInfo
from lcm.ndimage import map_coordinates
from lcm.function_representation import (get_function_representation, _get_label_translator, _get_lookup_function, _get_coordinate_finder, _get_interpolator, _fail_if_interpolation_axes_are_not_last)


def _fail_if_interpolation_axes_are_not_last(space_info):
    common = set(space_info.interpolation_info) & set(space_info.axis_names)
    if common:
        n_common = len(common)
        if sorted(common) != sorted(space_info.axis_names[-n_common:]):
            raise ValueError('Interpolation axes need to be the last entries in axis_order.')


def get_function_representation(space_info, name_of_values_on_grid, *, input_prefix=''):
    _fail_if_interpolation_axes_are_not_last(space_info)
    _need_interpolation = bool(space_info.interpolation_info)
    funcs = {}
    for var in space_info.lookup_info:
        funcs[f'__{var}_pos__'] = _get_label_translator(in_name=input_prefix + var)
    for indexer_info in space_info.indexer_infos:
        funcs[f'__{indexer_info.out_name}_pos__'] = _get_lookup_function(array_name=indexer_info.name, axis_names=[f'__{var}_pos__' for var in indexer_info.axis_names])
    _internal_axes = [f'__{var}_pos__' for var in space_info.axis_names]
    _lookup_axes = [var for var in _internal_axes if var in funcs]
    _out_name = '__interpolation_data__' if _need_interpolation else '__fval__'
    funcs[_out_name] = _get_lookup_function(array_name=name_of_values_on_grid, axis_names=_lookup_axes)
    if _need_interpolation:
        for var, grid_spec in space_info.interpolation_info.items():
            funcs[f'__{var}_coord__'] = _get_coordinate_finder(in_name=input_prefix + var, grid=grid_spec)
        _interpolation_axes = [f'__{var}_coord__' for var in space_info.axis_names if var in space_info.interpolation_info]
        funcs['__fval__'] = _get_interpolator(name_of_values_on_grid='__interpolation_data__', axis_names=_interpolation_axes)
    return concatenate_functions(functions=funcs, targets='__fval__')

