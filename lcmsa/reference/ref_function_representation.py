"""Reference forms for lcm.function_representation -- generated from reviewed commit e70c4c0 by tools/make_reference.py.
NEVER imported or executed; parsed by the analyser only."""
# ruff: noqa
from collections.abc import Callable
import jax.numpy as jnp
from dags import concatenate_functions
from dags.signature import with_signature
from jax import Array
from lcm.functools import all_as_kwargs
from lcm.grids import ContinuousGrid
from lcm.interfaces import SpaceInfo
from lcm.ndimage import map_coordinates
from lcm.function_representation import (get_function_representation, _get_label_translator, _get_lookup_function, _get_coordinate_finder, _get_interpolator, _fail_if_interpolation_axes_are_not_last)


def _fail_if_interpolation_axes_are_not_last(space_info):
    common = set(space_info.interpolation_info) & set(space_info.axis_names)
    if common:
        n_common = len(common)
        if sorted(common) != sorted(space_info.axis_names[-n_common:]):
            raise ValueError('Interpolation axes need to be the last entries in axis_order.')

