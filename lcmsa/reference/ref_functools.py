"""Reference forms for lcm.functools -- generated from reviewed commit e70c4c0 by tools/make_reference.py.
NEVER imported or executed; parsed by the analyser only."""
# ruff: noqa
import functools
import inspect
from collections.abc import Callable
from typing import Any, TypeVar, cast
from lcm.functools import (F, allow_only_kwargs, allow_args, get_union_of_arguments, all_as_kwargs, all_as_args, convert_kwargs_to_args)


def allow_only_kwargs(func):
    signature = inspect.signature(func)
    parameters = signature.parameters
    kw_only_parameters = [p.name for p in parameters.values() if p.kind == inspect.Parameter.KEYWORD_ONLY]
    new_parameters = [p.replace(kind=inspect.Parameter.KEYWORD_ONLY) for p in parameters.values()]
    new_signature = signature.replace(parameters=new_parameters)

    @functools.wraps(func)
    def func_with_only_kwargs(*args, **kwargs):
        if args:
            raise ValueError('This function has been decorated so that it allows only kwargs, but was called with positional arguments.')
        extra = set(kwargs).difference(parameters)
        if extra:
            raise ValueError(f'Expected arguments: {list(parameters)}, got extra: {extra}')
        missing = set(parameters).difference(kwargs)
        if missing:
            raise ValueError(f'Expected arguments: {list(parameters)}, missing: {missing}')
        kw_only_kwargs = {k: kwargs[k] for k in kw_only_parameters}
        pos_kwargs = {k: v for k, v in kwargs.items() if k not in kw_only_parameters}
        positional = convert_kwargs_to_args(pos_kwargs, list(parameters))
        return func(*positional, **kw_only_kwargs)
    func_with_only_kwargs.__signature__ = new_signature
    return cast(F, func_with_only_kwargs)


def allow_args(func):
    signature = inspect.signature(func)
    parameters = signature.parameters
    n_positional_only_parameters = len([p for p in parameters.values() if p.kind == inspect.Parameter.POSITIONAL_ONLY])
    new_parameters = [p.replace(kind=inspect.Parameter.POSITIONAL_OR_KEYWORD) if p.kind == inspect.Parameter.KEYWORD_ONLY else p for p in parameters.values()]
    new_signature = signature.replace(parameters=new_parameters)

    @functools.wraps(func)
    def allow_args_wrapper(*args, **kwargs):
        if len(args) + len(kwargs) != len(parameters):
            too_many = len(args) + len(kwargs) > len(parameters)
            msg = 'Too many arguments provided.' if too_many else 'Not all arguments provided.'
            raise ValueError(msg)
        positional = list(args) + convert_kwargs_to_args(kwargs, list(parameters))
        positional_only = positional[:n_positional_only_parameters]
        kwargs_names = list(parameters)[n_positional_only_parameters:]
        kwargs = dict(zip(kwargs_names, positional[n_positional_only_parameters:], strict=True))
        return func(*positional_only, **kwargs)
    allow_args_wrapper.__signature__ = new_signature
    return cast(F, allow_args_wrapper)


def get_union_of_arguments(list_of_functions):
    arguments = [inspect.signature(f).parameters for f in list_of_functions]
    return set().union(*arguments)

