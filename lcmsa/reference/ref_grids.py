"""Reference forms for lcm.grids -- generated from reviewed commit e70c4c0 by tools/make_reference.py.
NEVER imported or executed; parsed by the analyser only."""
# ruff: noqa
import math
from abc import ABC, abstractmethod
from dataclasses import dataclass, fields, is_dataclass
from typing import Any
import jax.numpy as jnp
from jax import Array
from lcm import grid_helpers
from lcm.exceptions import GridInitializationError, format_messages
from lcm.typing import Scalar
from lcm.grids import (Grid, DiscreteGrid, ContinuousGrid, LinspaceGrid, LogspaceGrid, _validate_discrete_grid, _get_field_names_and_values, _validate_continuous_grid)


def _validate_continuous_grid(start, stop, n_points):
    error_messages = []
    valid_start_type = isinstance(start, int | float)
    if not valid_start_type:
        error_messages.append('start must be a scalar int or float value')
    elif isinstance(start, float) and (not math.isfinite(start)):
        error_messages.append('start must be finite')
    valid_stop_type = isinstance(stop, int | float)
    if not valid_stop_type:
        error_messages.append('stop must be a scalar int or float value')
    elif isinstance(stop, float) and (not math.isfinite(stop)):
        error_messages.append('stop must be finite')
    if not isinstance(n_points, int) or n_points < 1:
        error_messages.append(f'n_points must be an int greater than 0 but is {n_points}')
    if valid_start_type and valid_stop_type and (start >= stop):
        error_messages.append('start must be less than stop')
    if error_messages:
        msg = format_messages(error_messages)
        raise GridInitializationError(msg)


def _validate_discrete_grid(category_class):
    if not is_dataclass(category_class):
        raise GridInitializationError(f'category_class must be a dataclass with scalar int or float fields, but is {category_class}.')
    names_and_values = _get_field_names_and_values(category_class)
    error_messages = []
    if not names_and_values:
        error_messages.append('category_class passed to DiscreteGrid must have at least one field')
    names_with_non_numerical_values = [name for name, value in names_and_values.items() if not isinstance(value, int | float)]
    if names_with_non_numerical_values:
        error_messages.append(f'Field values of the category_class passed to DiscreteGrid can only be scalar int or float values. The values to the following fields are not: {names_with_non_numerical_values}')
    values = list(names_and_values.values())
    duplicated_values = [v for v in values if values.count(v) > 1]
    if duplicated_values:
        error_messages.append(f'Field values of the category_class passed to DiscreteGrid must be unique. The following values are duplicated: {set(duplicated_values)}')
    if values != list(range(len(values))):
        error_messages.append('Field values of the category_class passed to DiscreteGrid must be consecutive integers starting from 0 (e.g., 0, 1, 2, ...).')
    if error_messages:
        msg = format_messages(error_messages)
        raise GridInitializationError(msg)


def _get_field_names_and_values(dc):
    return {field.name: getattr(dc, field.name, None) for field in fields(dc)}


def DiscreteGrid__init(self, category_class):
    _validate_discrete_grid(category_class)
    names_and_values = _get_field_names_and_values(category_class)
    self.__categories = tuple(names_and_values.keys())
    self.__codes = tuple(names_and_values.values())


def DiscreteGrid__to_jax(self):
    return jnp.array(self.codes)


def ContinuousGrid__post_init(self):
    _validate_continuous_grid(start=self.start, stop=self.stop, n_points=self.n_points)


def LinspaceGrid__to_jax(self):
    return grid_helpers.linspace(self.start, self.stop, self.n_points)


def LinspaceGrid__get_coordinate(self, value):
    return grid_helpers.get_linspace_coordinate(value, self.start, self.stop, self.n_points)


def LogspaceGrid__post_init(self):
    super().__post_init__()
    if self.start <= 0:
        raise GridInitializationError('start must be positive for a logarithmic grid')


def LogspaceGrid__to_jax(self):
    return grid_helpers.logspace(self.start, self.stop, self.n_points)


def LogspaceGrid__get_coordinate(self, value):
    return grid_helpers.get_logspace_coordinate(value, self.start, self.stop, self.n_points)

