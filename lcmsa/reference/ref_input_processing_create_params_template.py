"""Reference forms for lcm.input_processing.create_params_template -- generated from reviewed commit e70c4c0 by tools/make_reference.py.
NEVER imported or executed; parsed by the analyser only."""
# ruff: noqa
import inspect
import jax.numpy as jnp
import pandas as pd
from jax import Array
from lcm.input_processing.util import get_grids, get_variable_info
from lcm.typing import ParamsDict
from lcm.user_model import Model
from lcm.input_processing.create_params_template import (create_params_template, _create_function_params, _create_stochastic_transition_params)


def create_params_template(model, default_params={'beta': jnp.nan}):
    variable_info = get_variable_info(model)
    grids = get_grids(model)
    if variable_info['is_stochastic'].any():
        stochastic_transitions = _create_stochastic_transition_params(model=model, variable_info=variable_info, grids=grids)
        stochastic_transition_params = {'shocks': stochastic_transitions}
    else:
        stochastic_transition_params = {}
    function_params = _create_function_params(model)
    return default_params | function_params | stochastic_transition_params


def _create_function_params(model):
    variables = {*model.functions, *model.choices, *model.states, '_period'}
    if hasattr(model, 'shocks'):
        variables = variables | set(model.shocks)
    function_params = {}
    for name, func in model.functions.items():
        arguments = set(inspect.signature(func).parameters)
        params = sorted(arguments.difference(variables))
        function_params[name] = {p: jnp.nan for p in params}
    return function_params


def _create_stochastic_transition_params(model, variable_info, grids):
    stochastic_variables = variable_info.query('is_stochastic').index.tolist()
    discrete_state_vars = set(variable_info.query('is_state & is_discrete').index)
    invalid = set(stochastic_variables) - discrete_state_vars
    if invalid:
        raise ValueError(f'The following variables are stochastic, but are not discrete state variables: {invalid}. This is currently not supported.')
    valid_vars = set(variable_info.query('is_discrete').index) | {'_period'}
    stochastic_transition_params = {}
    invalid_dependencies = {}
    for var in stochastic_variables:
        next_var = model.functions[f'next_{var}']
        dependencies = list(inspect.signature(next_var).parameters)
        invalid = set(dependencies) - valid_vars
        if invalid:
            invalid_dependencies[var] = invalid
        else:
            dimensions_of_deps = [len(grids[arg]) if arg != '_period' else model.n_periods for arg in dependencies]
            dimensions = (*dimensions_of_deps, len(grids[var]))
            stochastic_transition_params[var] = jnp.full(dimensions, jnp.nan)
    if invalid_dependencies:
        raise ValueError(f"Stochastic transition functions can only depend on discrete variables or '_period'. The following variables have invalid arguments: {invalid_dependencies}.")
    return stochastic_transition_params

