"""Reference forms for lcm.input_processing.process_model -- generated from reviewed commit e70c4c0 by tools/make_reference.py.
NEVER imported or executed; parsed by the analyser only."""
# ruff: noqa
import functools
import inspect
from collections.abc import Callable
from copy import deepcopy
import pandas as pd
from dags.signature import with_signature
from jax import Array
from lcm.functools import all_as_args, all_as_kwargs
from lcm.input_processing.create_params_template import create_params_template
from lcm.input_processing.util import get_function_info, get_grids, get_gridspecs, get_variable_info
from lcm.interfaces import InternalModel
from lcm.typing import ParamsDict, ShockType
from lcm.user_model import Model
from lcm.input_processing.process_model import (process_model, _get_internal_functions, _replace_func_parameters_by_params, _add_dummy_params_argument, _get_stochastic_next_function, _get_stochastic_weight_function)


def process_model(model):
    params = create_params_template(model)
    return InternalModel(grids=get_grids(model), gridspecs=get_gridspecs(model), variable_info=get_variable_info(model), functions=_get_internal_functions(model, params=params), function_info=get_function_info(model), params=params, random_utility_shocks=ShockType.NONE, n_periods=model.n_periods)


def _get_internal_functions(model, params):
    variable_info = get_variable_info(model)
    grids = get_grids(model)
    function_info = get_function_info(model)
    raw_functions = deepcopy(model.functions)
    for var in model.states:
        if variable_info.loc[var, 'is_stochastic']:
            raw_functions[f'next_{var}'] = _get_stochastic_next_function(raw_func=raw_functions[f'next_{var}'], grid=grids[var])
            raw_functions[f'weight_next_{var}'] = _get_stochastic_weight_function(raw_func=raw_functions[f'next_{var}'], name=var, variable_info=variable_info)
    functions = {}
    for name, func in raw_functions.items():
        is_weight_next_function = name.startswith('weight_next_')
        if is_weight_next_function:
            processed_func = func
        else:
            is_filter_function = function_info.loc[name, 'is_filter']
            depends_on_params = bool(params[name])
            if is_filter_function:
                if params.get(name, False):
                    raise ValueError(f'filters cannot depend on model parameters, but {name} does.')
                processed_func = func
            elif depends_on_params:
                processed_func = _replace_func_parameters_by_params(func=func, params=params, name=name)
            else:
                processed_func = _add_dummy_params_argument(func)
        functions[name] = processed_func
    return functions

