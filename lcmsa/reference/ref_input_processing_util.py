"""Reference forms for lcm.input_processing.util -- generated from reviewed commit e70c4c0 by tools/make_reference.py.
NEVER imported or executed; parsed by the analyser only."""
# ruff: noqa
from collections.abc import Callable
import pandas as pd
from dags import get_ancestors
from lcm.grids import ContinuousGrid, Grid
from lcm.typing import Array
from lcm.user_model import Model
from lcm.input_processing.util import (get_function_info, get_variable_info, _get_auxiliary_variables, get_gridspecs, get_grids)


def get_function_info(model):
    info = pd.DataFrame(index=list(model.functions))
    info['is_filter'] = info.index.str.endswith('_filter')
    info['is_constraint'] = info.index.str.endswith('_constraint')
    info['is_next'] = info.index.str.startswith('next_') & ~info['is_constraint'] & ~info['is_filter']
    info['is_stochastic_next'] = [hasattr(func, '_stochastic_info') for func in model.functions.values()]
    return info


def _get_auxiliary_variables(state_variables, function_info, user_functions):
    non_next_functions = function_info.query('~is_next').index.tolist()
    user_functions = {name: user_functions[name] for name in non_next_functions}
    ancestors = get_ancestors(user_functions, targets=list(user_functions), include_targets=True)
    return list(set(state_variables).difference(set(ancestors)))


def get_gridspecs(model):
    variable_info = get_variable_info(model)
    raw_variables = model.states | model.choices
    order = variable_info.index.tolist()
    return {k: raw_variables[k] for k in order}


def get_grids(model):
    variable_info = get_variable_info(model)
    gridspecs = get_gridspecs(model)
    grids = {name: spec.to_jax() for name, spec in gridspecs.items()}
    order = variable_info.index.tolist()
    return {k: grids[k] for k in order}

