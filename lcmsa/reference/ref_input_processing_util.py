"""Reference forms for lcm.input_processing.util -- generated from reviewed commit e70c4c0 by tools/make_reference.py.
NEVER imported or executed; parsed by the analyser only."""
# ruff: noqa
from collections.abc import Callable
import pandas as pd
from dags import get_ancestors
from lcm.grids import ContinuousGrid, Grid
from lcm.typing import Array
from lcm.user_model import Model
from lcm.input_processing.util import (get_function_info, get_variable_info, _get_auxiliary_variables, get_gridspecs, get_grids)


def get_function_info(model):
    info = pd.DataFrame(index=list(model.functions))
    info['is_filter'] = info.index.str.endswith('_filter')
    info['is_constraint'] = info.index.str.endswith('_constraint')
    info['is_next'] = info.index.str.startswith('next_') & ~info['is_constraint'] & ~info['is_filter']
    info['is_stochastic_next'] = [hasattr(func, '_stochastic_info') for func in model.functions.values()]
    return info


def _get_auxiliary_variables(state_variables, function_info, user_functions):
    non_next_functions = function_info.query('~is_next').index.tolist()
    user_functions = {name: user_functions[name] for name in non_next_functions}
    ancestors = get_ancestors(user_functions, targets=list(user_functions), include_targets=True)
    return list(set(state_variables).difference(set(ancestors)))


def get_gridspecs(model):
    variable_info = get_variable_info(model)
    raw_variables = model.states | model.choices
    order = variable_info.index.tolist()
    return {k: raw_variables[k] for k in order}


def get_grids(model):
    variable_info = get_variable_info(model)
    gridspecs = get_gridspecs(model)
    grids = {name: spec.to_jax() for name, spec in gridspecs.items()}
    order = variable_info.index.tolist()
    return {k: grids[k] for k in order}


def get_variable_info(model):
    function_info = get_function_info(model)
    variables = model.states | model.choices
    info = pd.DataFrame(index=list(variables))
    info['is_state'] = info.index.isin(model.states)
    info['is_choice'] = ~info['is_state']
    info['is_continuous'] = [isinstance(spec, ContinuousGrid) for spec in variables.values()]
    info['is_discrete'] = ~info['is_continuous']
    info['is_stochastic'] = [var in model.states and function_info.loc[f'next_{var}', 'is_stochastic_next'] for var in variables]
    auxiliary_variables = _get_auxiliary_variables(state_variables=info.query('is_state').index.tolist(), function_info=function_info, user_functions=model.functions)
    info['is_auxiliary'] = [var in auxiliary_variables for var in variables]
    filter_names = function_info.query('is_filter').index.tolist()
    filtered_variables: set[str] = set()
    for name in filter_names:
        filtered_variables.update(get_ancestors(model.functions, name))
    info['is_sparse'] = [var in filtered_variables for var in variables]
    info['is_dense'] = ~info['is_sparse']
    order = info.query('is_sparse & is_state').index.tolist()
    order += info.query('is_sparse & is_choice').index.tolist()
    order += info.query('is_dense & is_discrete & is_state').index.tolist()
    order += info.query('is_dense & is_discrete & is_choice').index.tolist()
    order += info.query('is_dense & is_continuous & is_state').index.tolist()
    order += info.query('is_dense & is_continuous & is_choice').index.tolist()
    if set(order) != set(info.index):
        raise ValueError('Order and index do not match.')
    return info.loc[order]

