"""Reference forms for lcm.mark -- generated from reviewed commit e70c4c0 by tools/make_reference.py.
NEVER imported or executed; parsed by the analyser only."""
# ruff: noqa
import functools
from dataclasses import dataclass
from lcm.mark import (StochasticInfo, stochastic)


def stochastic(func, *args, **kwargs):
    stochastic_info = StochasticInfo(*args, **kwargs)

    def decorator_stochastic(func):

        @functools.wraps(func)
        def wrapper_mark_stochastic(*args, **kwargs):
            return func(*args, **kwargs)
        wrapper_mark_stochastic._stochastic_info = stochastic_info
        return wrapper_mark_stochastic
    return decorator_stochastic(func) if callable(func) else decorator_stochastic

