"""Reference forms for lcm.model_functions -- generated from reviewed commit e70c4c0 by tools/make_reference.py.
NEVER imported or executed; parsed by the analyser only."""
# ruff: noqa
import inspect
import jax.numpy as jnp
from dags import concatenate_functions
from dags.signature import with_signature
from lcm.dispatchers import productmap
from lcm.function_representation import get_function_representation
from lcm.functools import all_as_args, all_as_kwargs, get_union_of_arguments
from lcm.interfaces import InternalModel
from lcm.next_state import get_next_state_function
from lcm.model_functions import (get_utility_and_feasibility_function, get_multiply_weights, get_combined_constraint, get_current_u_and_f, get_next_weights_function)


def get_combined_constraint(model):
    targets = model.function_info.query('is_constraint').index.tolist()
    if targets:
        combined_constraint = concatenate_functions(functions=model.functions, targets=targets, aggregator=jnp.logical_and)
    else:

        def combined_constraint():
            return None
    return combined_constraint


def get_current_u_and_f(model):
    functions = {'feasibility': get_combined_constraint(model), **model.functions}
    return concatenate_functions(functions=functions, targets=['utility', 'feasibility'], enforce_signature=False)


def get_next_weights_function(model):
    targets = [f'weight_{name}' for name in model.function_info.query('is_stochastic_next').index.tolist()]
    return concatenate_functions(functions=model.functions, targets=targets, return_type='dict', enforce_signature=False)

