"""Reference forms for lcm.model_functions -- generated from reviewed commit e70c4c0 by tools/make_reference.py.
NEVER imported or executed; parsed by the analyser only."""
# ruff: noqa
import inspect
import jax.numpy as jnp
from dags import concatenate_functions
from dags.signature import with_signature
from lcm.dispatchers import productmap
from lcm.function_representation import get_function_representation
from lcm.functools import all_as_args, all_as_kwargs, get_union_of_arguments
from lcm.interfaces import InternalModel
from lcm.next_state import get_next_state_function
from lcm.model_functions import (get_utility_and_feasibility_function, get_multiply_weights, get_combined_constraint, get_current_u_and_f, get_next_weights_function)


def get_combined_constraint(model):
    targets = model.function_info.query('is_constraint').index.tolist()
    if targets:
        combined_constraint = concatenate_functions(functions=model.functions, targets=targets, aggregator=jnp.logical_and)
    else:

        def combined_constraint():
            return None
    return combined_constraint


def get_current_u_and_f(model):
    functions = {'feasibility': get_combined_constraint(model), **model.functions}
    return concatenate_functions(functions=functions, targets=['utility', 'feasibility'], enforce_signature=False)


def get_next_weights_function(model):
    targets = [f'weight_{name}' for name in model.function_info.query('is_stochastic_next').index.tolist()]
    return concatenate_functions(functions=model.functions, targets=targets, return_type='dict', enforce_signature=False)


def get_utility_and_feasibility_function(model, space_info, name_of_values_on_grid, period, is_last_period):
    state_variables = model.variable_info.query('is_state').index.tolist()
    choice_variables = model.variable_info.query('is_choice').index.tolist()
    stochastic_variables = model.variable_info.query('is_stochastic').index.tolist()
    current_u_and_f = get_current_u_and_f(model)
    if is_last_period:
        relevant_functions = [current_u_and_f]
    else:
        next_state = get_next_state_function(model, target='solve')
        next_weights = get_next_weights_function(model)
        scalar_value_function = get_function_representation(space_info=space_info, name_of_values_on_grid=name_of_values_on_grid, input_prefix='next_')
        multiply_weights = get_multiply_weights(stochastic_variables)
        relevant_functions = [current_u_and_f, next_state, next_weights, scalar_value_function]
        value_function_arguments = list(inspect.signature(scalar_value_function).parameters)
    arg_names = {'vf_arr'} | get_union_of_arguments(relevant_functions) - {'_period'}
    arg_names = [arg for arg in arg_names if not arg.startswith('next_')]
    if is_last_period:

        @with_signature(args=arg_names)
        def u_and_f(*args, **kwargs):
            kwargs = all_as_kwargs(args, kwargs, arg_names=arg_names)
            states = {k: v for k, v in kwargs.items() if k in state_variables}
            choices = {k: v for k, v in kwargs.items() if k in choice_variables}
            return current_u_and_f(**states, **choices, _period=period, params=kwargs['params'])
    else:

        @with_signature(args=arg_names)
        def u_and_f(*args, **kwargs):
            kwargs = all_as_kwargs(args, kwargs, arg_names=arg_names)
            states = {k: v for k, v in kwargs.items() if k in state_variables}
            choices = {k: v for k, v in kwargs.items() if k in choice_variables}
            u, f = current_u_and_f(**states, **choices, _period=period, params=kwargs['params'])
            _next_state = next_state(**states, **choices, _period=period, params=kwargs['params'])
            weights = next_weights(**states, **choices, _period=period, params=kwargs['params'])
            value_function = productmap(scalar_value_function, variables=[f'next_{var}' for var in stochastic_variables])
            ccvs_at_nodes = value_function(**_next_state, **{k: v for k, v in kwargs.items() if k in value_function_arguments})
            node_weights = multiply_weights(**weights)
            ccv = (ccvs_at_nodes * node_weights).sum()
            big_u = u + kwargs['params']['beta'] * ccv
            return (big_u, f)
    return u_and_f

