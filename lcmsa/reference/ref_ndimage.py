"""Reference forms for lcm.ndimage -- generated from reviewed commit e70c4c0 by tools/make_reference.py.
NEVER imported or executed; parsed by the analyser only."""
# ruff: noqa
import functools
import itertools
import operator
from collections.abc import Sequence
import jax.numpy as jnp
from jax import Array, jit, lax
from lcm.ndimage import (map_coordinates, _compute_indices_and_weights, _multiply_all, _sum_all, _round_half_away_from_zero)


@jit
def map_coordinates(input, coordinates):
    if len(coordinates) != input.ndim:
        raise ValueError(f'coordinates must be a sequence of length input.ndim, but {len(coordinates)} != {input.ndim}')
    interpolation_data = [_compute_indices_and_weights(coordinate, size) for coordinate, size in zip(coordinates, input.shape, strict=True)]
    interpolation_values = []
    for indices_and_weights in itertools.product(*interpolation_data):
        indices, weights = zip(*indices_and_weights, strict=True)
        contribution = input[indices]
        weighted_value = _multiply_all(weights) * contribution
        interpolation_values.append(weighted_value)
    result = _sum_all(interpolation_values)
    if jnp.issubdtype(input.dtype, jnp.integer):
        result = _round_half_away_from_zero(result)
    return result.astype(input.dtype)


def _round_half_away_from_zero(a):
    return a if jnp.issubdtype(a.dtype, jnp.integer) else lax.round(a)

