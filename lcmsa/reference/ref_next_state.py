"""Reference forms for lcm.next_state -- generated from reviewed commit e70c4c0 by tools/make_reference.py.
NEVER imported or executed; parsed by the analyser only."""
# ruff: noqa
from dags import concatenate_functions
from dags.signature import with_signature
from lcm.functools import all_as_args
from lcm.interfaces import InternalModel
from lcm.random_choice import random_choice
from lcm.next_state import (get_next_state_function, _get_next_state_function_solution, _get_next_state_function_simulation, _get_stochastic_next_func)


def get_next_state_function(model, target):
    if target == 'solve':
        out = _get_next_state_function_solution(model)
    elif target == 'simulate':
        out = _get_next_state_function_simulation(model)
    else:
        raise ValueError(f"Target must be 'solution' or 'simulation'. Got {target}.")
    return out


def _get_next_state_function_solution(model):
    targets = model.function_info.query('is_next').index.tolist()
    return concatenate_functions(functions=model.functions, targets=targets, return_type='dict', enforce_signature=False)


def _get_next_state_function_simulation(model):
    targets = model.function_info.query('is_next').index.tolist()
    stochastic_targets = model.function_info.query('is_next & is_stochastic_next').index
    stochastic_next = {name: _get_stochastic_next_func(name, grids=model.grids) for name in stochastic_targets}
    stochastic_weights_names = [f'weight_{name}' for name in model.function_info.query('is_stochastic_next').index.tolist()]
    stochastic_weights = {name: model.functions[name] for name in stochastic_weights_names}
    functions_dict = model.functions | stochastic_next | stochastic_weights
    return concatenate_functions(functions=functions_dict, targets=targets, return_type='dict', enforce_signature=False)

