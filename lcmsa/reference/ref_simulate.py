"""Reference forms for lcm.simulate -- generated from reviewed commit e70c4c0 by tools/make_reference.py.
NEVER imported or executed; parsed by the analyser only."""
# ruff: noqa
import inspect
from functools import partial
import jax
import jax.numpy as jnp
import pandas as pd
from dags import concatenate_functions
from jax import vmap
from lcm.argmax import argmax, segment_argmax
from lcm.dispatchers import spacemap, vmap_1d
from lcm.interfaces import InternalModel, Space
from lcm.simulate import (simulate, solve_continuous_problem, _as_data_frame, _compute_targets, _process_simulated_data, _generate_simulation_keys, filter_ccv_policy, retrieve_non_sparse_choices, vmapped_unravel_index, create_data_scs, get_discrete_policy_calculator, dict_product, create_choice_segments, determine_discrete_dense_choice_axes)


def _process_simulated_data(results):
    n_periods = len(results)
    n_initial_states = len(results[0]['value'])
    list_of_dicts = [{'value': d['value'], **d['choices'], **d['states']} for d in results]
    dict_of_lists = {key: [d[key] for d in list_of_dicts] for key in list(list_of_dicts[0])}
    out = {key: jnp.concatenate(values) for key, values in dict_of_lists.items()}
    out['_period'] = jnp.repeat(jnp.arange(n_periods), n_initial_states)
    return out


def _compute_targets(processed_results, targets, model_functions, params):
    target_func = concatenate_functions(functions=model_functions, targets=targets, return_type='dict')
    variables = [p for p in list(inspect.signature(target_func).parameters) if p != 'params']
    target_func = vmap_1d(target_func, variables=variables)
    kwargs = {k: v for k, v in processed_results.items() if k in variables}
    return target_func(params=params, **kwargs)


def get_discrete_policy_calculator(variable_info):
    choice_axes = determine_discrete_dense_choice_axes(variable_info)

    def _calculate_discrete_argmax(values, choice_axes, choice_segments):
        _max = values
        if choice_axes is not None:
            dense_argmax, _max = argmax(_max, axis=choice_axes)
        else:
            dense_argmax = None
        if choice_segments is not None:
            sparse_argmax, _max = segment_argmax(_max, **choice_segments)
        else:
            sparse_argmax = None
        return (dense_argmax, sparse_argmax, _max)
    return partial(_calculate_discrete_argmax, choice_axes=choice_axes)


def determine_discrete_dense_choice_axes(variable_info):
    discrete_dense_choice_vars = variable_info.query('~is_continuous & is_dense & is_choice').index.tolist()
    choice_vars = set(variable_info.query('is_choice').index.tolist())
    choice_indices = [i + 1 for i, ax in enumerate(discrete_dense_choice_vars) if ax in choice_vars]
    return None if not choice_indices else tuple(choice_indices)


@partial(vmap_1d, variables=['ccv_policy', 'dense_argmax'])
def filter_ccv_policy(ccv_policy, dense_argmax, dense_vars_grid_shape):
    if dense_argmax is None:
        out = ccv_policy
    else:
        indices = jnp.unravel_index(dense_argmax, shape=dense_vars_grid_shape)
        out = ccv_policy[indices]
    return out


def simulate(params, initial_states, state_indexers, continuous_choice_grids, compute_ccv_policy_functions, model, next_state, logger, solve_model=None, vf_arr_list=None, additional_targets=None, seed=12345):
    if vf_arr_list is None:
        if solve_model is None:
            raise ValueError('You need to provide either vf_arr_list or solve_model.')
        vf_arr_list = solve_model(params)
    logger.info('Starting simulation')
    vf_arr_list = vf_arr_list[1:] + [None]
    n_periods = len(vf_arr_list)
    n_initial_states = len(next(iter(initial_states.values())))
    _discrete_policy_calculator = get_discrete_policy_calculator(variable_info=model.variable_info)
    sparse_choice_variables = model.variable_info.query('is_choice & is_sparse').index
    states = initial_states
    key = jax.random.PRNGKey(seed=seed)
    _simulation_results = []
    for period in range(n_periods):
        data_scs, data_choice_segments = create_data_scs(states=states, model=model, period=period)
        dense_vars_grid_shape = tuple((len(grid) for grid in data_scs.dense_vars.values()))
        cont_choice_grid_shape = tuple((len(grid) for grid in continuous_choice_grids[period].values()))
        discrete_policy_calculator = partial(_discrete_policy_calculator, choice_segments=data_choice_segments)
        ccv_policy, ccv = solve_continuous_problem(data_scs=data_scs, compute_ccv=compute_ccv_policy_functions[period], continuous_choice_grids=continuous_choice_grids[period], vf_arr=vf_arr_list[period], state_indexers=state_indexers[period], params=params)
        dense_argmax, sparse_argmax, value = discrete_policy_calculator(ccv)
        cont_choice_argmax = filter_ccv_policy(ccv_policy=ccv_policy, dense_argmax=dense_argmax, dense_vars_grid_shape=dense_vars_grid_shape)
        if sparse_argmax is not None:
            cont_choice_argmax = cont_choice_argmax[sparse_argmax]
            if dense_argmax is not None:
                dense_argmax = dense_argmax[sparse_argmax]
        dense_choices = retrieve_non_sparse_choices(indices=dense_argmax, grids=data_scs.dense_vars, grid_shape=dense_vars_grid_shape)
        cont_choices = retrieve_non_sparse_choices(indices=cont_choice_argmax, grids=continuous_choice_grids[period], grid_shape=cont_choice_grid_shape)
        sparse_choices = {key: data_scs.sparse_vars[key][sparse_argmax] for key in sparse_choice_variables}
        choices = {**dense_choices, **sparse_choices, **cont_choices}
        _simulation_results.append({'value': value, 'choices': choices, 'states': states})
        key, sim_keys = _generate_simulation_keys(key=key, ids=model.function_info.query('is_stochastic_next').index)
        states = next_state(**states, **choices, _period=jnp.repeat(period, n_initial_states), params=params, keys=sim_keys)
        states = {k.removeprefix('next_'): v for k, v in states.items()}
        logger.info('Period: %s', period)
    processed = _process_simulated_data(_simulation_results)
    if additional_targets is not None:
        calculated_targets = _compute_targets(processed, targets=additional_targets, model_functions=model.functions, params=params)
        processed = {**processed, **calculated_targets}
    return _as_data_frame(processed, n_periods=n_periods)


def solve_continuous_problem(data_scs, compute_ccv, continuous_choice_grids, vf_arr, state_indexers, params):
    _gridmapped = spacemap(func=compute_ccv, dense_vars=list(data_scs.dense_vars), sparse_vars=list(data_scs.sparse_vars), put_dense_first=False)
    gridmapped = jax.jit(_gridmapped)
    return gridmapped(**data_scs.dense_vars, **continuous_choice_grids, **data_scs.sparse_vars, **state_indexers, vf_arr=vf_arr, params=params)


def create_data_scs(states, model, period):
    vi = model.variable_info
    has_sparse_choice_vars = len(vi.query('is_sparse & is_choice')) > 0
    n_states = len(next(iter(states.values())))
    state_names = set(vi.query('is_state').index)
    if state_names != set(states.keys()):
        missing = state_names - set(states.keys())
        too_many = set(states.keys()) - state_names
        raise ValueError(f'You need to provide an initial value for each state variable in the model.\n\nMissing initial states: {missing}\n', f'Provided variables that are not states: {too_many}')
    sparse_choices = {name: grid for name, grid in model.grids.items() if name in vi.query('is_sparse & is_choice').index.tolist()}
    dense_choices = {name: grid for name, grid in model.grids.items() if name in vi.query('is_dense & is_choice & ~is_continuous').index.tolist()}
    if has_sparse_choice_vars:
        sc_product, n_sc_product_combinations = dict_product(sparse_choices)
        _combination_grid = {}
        for name, state in states.items():
            _combination_grid[name] = jnp.repeat(state, repeats=n_sc_product_combinations)
        for name, choice in sc_product.items():
            _combination_grid[name] = jnp.tile(choice, reps=n_states)
        filter_names = model.function_info.query('is_filter').index.tolist()
        scalar_filter = concatenate_functions(functions=model.functions, targets=filter_names, aggregator=jnp.logical_and)
        fixed_inputs = {'_period': period}
        potential_kwargs = _combination_grid | fixed_inputs
        parameters = list(inspect.signature(scalar_filter).parameters)
        kwargs = {k: v for k, v in potential_kwargs.items() if k in parameters}
        vmapped_parameters = [p for p in parameters if p != '_period']
        _filter = vmap_1d(scalar_filter, variables=vmapped_parameters)
        mask = _filter(**kwargs)
        combination_grid = {name: grid[mask] for name, grid in _combination_grid.items()}
    else:
        combination_grid = states
        data_choice_segments = None
    data_scs = Space(sparse_vars=combination_grid, dense_vars=dense_choices)
    if has_sparse_choice_vars:
        data_choice_segments = create_choice_segments(mask=mask, n_sparse_states=n_states)
    else:
        data_choice_segments = None
    return (data_scs, data_choice_segments)

