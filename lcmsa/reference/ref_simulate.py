"""Reference forms for lcm.simulate -- generated from reviewed commit e70c4c0 by tools/make_reference.py.
NEVER imported or executed; parsed by the analyser only."""
# ruff: noqa
import inspect
from functools import partial
import jax
import jax.numpy as jnp
import pandas as pd
from dags import concatenate_functions
from jax import vmap
from lcm.argmax import argmax, segment_argmax
from lcm.dispatchers import spacemap, vmap_1d
from lcm.interfaces import InternalModel, Space
from lcm.simulate import (simulate, solve_continuous_problem, _as_data_frame, _compute_targets, _process_simulated_data, _generate_simulation_keys, filter_ccv_policy, retrieve_non_sparse_choices, vmapped_unravel_index, create_data_scs, get_discrete_policy_calculator, dict_product, create_choice_segments, determine_discrete_dense_choice_axes)


def _process_simulated_data(results):
    n_periods = len(results)
    n_initial_states = len(results[0]['value'])
    list_of_dicts = [{'value': d['value'], **d['choices'], **d['states']} for d in results]
    dict_of_lists = {key: [d[key] for d in list_of_dicts] for key in list(list_of_dicts[0])}
    out = {key: jnp.concatenate(values) for key, values in dict_of_lists.items()}
    out['_period'] = jnp.repeat(jnp.arange(n_periods), n_initial_states)
    return out


def _compute_targets(processed_results, targets, model_functions, params):
    target_func = concatenate_functions(functions=model_functions, targets=targets, return_type='dict')
    variables = [p for p in list(inspect.signature(target_func).parameters) if p != 'params']
    target_func = vmap_1d(target_func, variables=variables)
    kwargs = {k: v for k, v in processed_results.items() if k in variables}
    return target_func(params=params, **kwargs)


def get_discrete_policy_calculator(variable_info):
    choice_axes = determine_discrete_dense_choice_axes(variable_info)

    def _calculate_discrete_argmax(values, choice_axes, choice_segments):
        _max = values
        if choice_axes is not None:
            dense_argmax, _max = argmax(_max, axis=choice_axes)
        else:
            dense_argmax = None
        if choice_segments is not None:
            sparse_argmax, _max = segment_argmax(_max, **choice_segments)
        else:
            sparse_argmax = None
        return (dense_argmax, sparse_argmax, _max)
    return partial(_calculate_discrete_argmax, choice_axes=choice_axes)


def determine_discrete_dense_choice_axes(variable_info):
    discrete_dense_choice_vars = variable_info.query('~is_continuous & is_dense & is_choice').index.tolist()
    choice_vars = set(variable_info.query('is_choice').index.tolist())
    choice_indices = [i + 1 for i, ax in enumerate(discrete_dense_choice_vars) if ax in choice_vars]
    return None if not choice_indices else tuple(choice_indices)


@partial(vmap_1d, variables=['ccv_policy', 'dense_argmax'])
def filter_ccv_policy(ccv_policy, dense_argmax, dense_vars_grid_shape):
    if dense_argmax is None:
        out = ccv_policy
    else:
        indices = jnp.unravel_index(dense_argmax, shape=dense_vars_grid_shape)
        out = ccv_policy[indices]
    return out

