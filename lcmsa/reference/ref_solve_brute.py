"""Reference forms for lcm.solve_brute -- generated from reviewed commit e70c4c0 by tools/make_reference.py.
NEVER imported or executed; parsed by the analyser only."""
# ruff: noqa
import jax
from lcm.dispatchers import spacemap
from lcm.solve_brute import (solve, solve_continuous_problem)


def solve(params, state_choice_spaces, state_indexers, continuous_choice_grids, compute_ccv_functions, emax_calculators, logger):
    n_periods = len(state_choice_spaces)
    reversed_solution = []
    vf_arr = None
    logger.info('Starting solution')
    for period in reversed(range(n_periods)):
        conditional_continuation_values = solve_continuous_problem(state_choice_space=state_choice_spaces[period], compute_ccv=compute_ccv_functions[period], continuous_choice_grids=continuous_choice_grids[period], vf_arr=vf_arr, state_indexers=state_indexers[period], params=params)
        calculate_emax = emax_calculators[period]
        vf_arr = calculate_emax(conditional_continuation_values, params=params)
        reversed_solution.append(vf_arr)
        logger.info('Period: %s', period)
    return list(reversed(reversed_solution))


def solve_continuous_problem(state_choice_space, compute_ccv, continuous_choice_grids, vf_arr, state_indexers, params):
    _gridmapped = spacemap(func=compute_ccv, dense_vars=list(state_choice_space.dense_vars), sparse_vars=list(state_choice_space.sparse_vars), put_dense_first=False)
    gridmapped = jax.jit(_gridmapped)
    return gridmapped(**state_choice_space.dense_vars, **continuous_choice_grids, **state_choice_space.sparse_vars, **state_indexers, vf_arr=vf_arr, params=params)

