"""Reference forms for lcm.state_space -- generated from reviewed commit e70c4c0 by tools/make_reference.py.
NEVER imported or executed; parsed by the analyser only."""
# ruff: noqa
import inspect
import jax
import jax.numpy as jnp
import numpy as np
from dags import concatenate_functions
from lcm.dispatchers import productmap, spacemap
from lcm.interfaces import IndexerInfo, InternalModel, Space, SpaceInfo
from lcm.state_space import (create_state_choice_space, create_filter_mask, create_forward_mask, create_combination_grid, _combine_masks, create_indexers_and_segments, _create_value_grid)


def _combine_masks(masks):
    if isinstance(masks, np.ndarray | jnp.ndarray):
        _masks = [masks]
    else:
        _masks = sorted(masks, key=lambda x: len(x.shape), reverse=True)
    mask = _masks[0]
    for m in _masks[1:]:
        _shape = tuple(list(m.shape) + [1] * (mask.ndim - m.ndim))
        mask = jnp.logical_and(mask, m.reshape(_shape))
    return np.array(mask)


def create_state_choice_space(model, period, *, is_last_period, jit_filter):
    vi = model.variable_info
    if is_last_period:
        vi = vi.query('~is_auxiliary')
    has_sparse_states = (vi.is_sparse & vi.is_state).any()
    has_sparse_vars = vi.is_sparse.any()
    _value_grid = _create_value_grid(grids=model.grids, subset=vi.query('is_dense & ~(is_choice & is_continuous)').index.tolist())
    if has_sparse_vars:
        _filter_mask = create_filter_mask(model=model, subset=vi.query('is_sparse').index.tolist(), fixed_inputs={'_period': period}, jit_filter=jit_filter)
        _combination_grid = create_combination_grid(grids=model.grids, masks=_filter_mask, subset=vi.query('is_sparse').index.tolist())
    else:
        _combination_grid = {}
    state_choice_space = Space(sparse_vars=_combination_grid, dense_vars=_value_grid)
    if has_sparse_vars:
        _state_indexer, _, choice_segments = create_indexers_and_segments(mask=_filter_mask, n_sparse_states=len(vi.query('is_sparse & is_state')))
    else:
        _state_indexer = None
        choice_segments = None
    state_indexers = {'state_indexer': _state_indexer} if has_sparse_states else {}
    axis_names = vi.query('is_dense & is_state').index.tolist()
    if has_sparse_states:
        axis_names = ['state_index', *axis_names]
    _discrete_states = set(vi.query('is_discrete & is_state').index.tolist())
    lookup_info = {k: v for k, v in model.gridspecs.items() if k in _discrete_states}
    _cont_states = set(vi.query('is_continuous & is_state').index.tolist())
    interpolation_info = {k: v for k, v in model.gridspecs.items() if k in _cont_states}
    if has_sparse_states:
        indexer_infos = [IndexerInfo(axis_names=vi.query('is_sparse & is_state').index.tolist(), name='state_indexer', out_name='state_index')]
    else:
        indexer_infos = []
    space_info = SpaceInfo(axis_names=axis_names, lookup_info=lookup_info, interpolation_info=interpolation_info, indexer_infos=indexer_infos)
    return (state_choice_space, space_info, state_indexers, choice_segments)

