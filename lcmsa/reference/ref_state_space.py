"""Reference forms for lcm.state_space -- generated from reviewed commit e70c4c0 by tools/make_reference.py.
NEVER imported or executed; parsed by the analyser only."""
# ruff: noqa
import inspect
import jax
import jax.numpy as jnp
import numpy as np
from dags import concatenate_functions
from lcm.dispatchers import productmap, spacemap
from lcm.interfaces import IndexerInfo, InternalModel, Space, SpaceInfo
from lcm.state_space import (create_state_choice_space, create_filter_mask, create_forward_mask, create_combination_grid, _combine_masks, create_indexers_and_segments, _create_value_grid)


def _combine_masks(masks):
    if isinstance(masks, np.ndarray | jnp.ndarray):
        _masks = [masks]
    else:
        _masks = sorted(masks, key=lambda x: len(x.shape), reverse=True)
    mask = _masks[0]
    for m in _masks[1:]:
        _shape = tuple(list(m.shape) + [1] * (mask.ndim - m.ndim))
        mask = jnp.logical_and(mask, m.reshape(_shape))
    return np.array(mask)

