"""Reference forms for lcm.user_model -- generated from reviewed commit e70c4c0 by tools/make_reference.py.
NEVER imported or executed; parsed by the analyser only."""
# ruff: noqa
import dataclasses as dc
from collections.abc import Callable
from dataclasses import KW_ONLY, dataclass, field
from lcm.exceptions import ModelInitilizationError, format_messages
from lcm.grids import Grid
from lcm.user_model import (Model, _validate_attribute_types, _validate_logical_consistency)


def _validate_attribute_types(model):
    error_messages = []
    for attr_name in ('choices', 'states'):
        attr = getattr(model, attr_name)
        if isinstance(attr, dict):
            for k, v in attr.items():
                if not isinstance(k, str):
                    error_messages.append(f'{attr_name} key {k} must be a string.')
                if not isinstance(v, Grid):
                    error_messages.append(f'{attr_name} value {v} must be an LCM grid.')
        else:
            error_messages.append(f'{attr_name} must be a dictionary.')
    if isinstance(model.functions, dict):
        for k, v in model.functions.items():
            if not isinstance(k, str):
                error_messages.append(f'function keys must be a strings, but is {k}.')
            if not callable(v):
                error_messages.append(f'function values must be a callable, but is {v}.')
    else:
        error_messages.append('functions must be a dictionary.')
    if error_messages:
        msg = format_messages(error_messages)
        raise ModelInitilizationError(msg)


def _validate_logical_consistency(model):
    error_messages = []
    if model.n_periods < 1:
        error_messages.append('Number of periods must be a positive integer.')
    if 'utility' not in model.functions:
        error_messages.append("Utility function is not defined. LCM expects a function called 'utility' in the functions dictionary.")
    states_without_next_func = [state for state in model.states if f'next_{state}' not in model.functions]
    if states_without_next_func:
        error_messages.append(f'Each state must have a corresponding next state function. For the following states, no next state function was found: {states_without_next_func}.')
    states_and_choices_overlap = set(model.states) & set(model.choices)
    if states_and_choices_overlap:
        error_messages.append(f'States and choices cannot have overlapping names. The following names are used in both states and choices: {states_and_choices_overlap}.')
    if error_messages:
        msg = format_messages(error_messages)
        raise ModelInitilizationError(msg)


def Model__post_init(self):
    _validate_attribute_types(self)
    _validate_logical_consistency(self)

