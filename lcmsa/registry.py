"""Which rules decide which property (see DESIGN.md section 4)."""

from lcmsa import rules_bellman as bel
from lcmsa import rules_eff as eff
from lcmsa import rules_guard as guard
from lcmsa import rules_imp as imp
from lcmsa import rules_splat as splat
from lcmsa import rules_kernel as ker
from lcmsa import rules_per as per
from lcmsa import rules_qa as qa
from lcmsa import rules_sig as sig
from lcmsa import rules_sim as sim

TRUSTED_COMMON = [
    "CPython ast module (parsing)",
    "semantics of jax.vmap / jax.ops.segment_max / jax.random / jnp reductions as summarised in DESIGN.md",
    "dags.concatenate_functions (argument order alphabetical; strict signatures unless enforce_signature=False)",
    "pandas DataFrame.query evaluates the boolean formula it is given",
    "the analyser's own term builder and normaliser (lcmsa/core.py, lcmsa/alg.py), exercised by the self-test variants",
]
ASSUMPTIONS_COMMON = [
    "the analysed tree is <repo>/src/lcm as found on disk at the time of the run; nothing is imported or executed",
    "structural clauses only: a necessary condition of the property is decided, never floating-point values",
    "reference forms (lcmsa/reference/*.py) were reviewed by hand at the commit named in their header",
]

PROPERTIES = {}


def prop(pid, rules, explanation, **kw):
    PROPERTIES[pid] = {"rules": list(rules), "explanation": explanation, **kw}


COVER_ONLY = {"R2.QA1": lambda o: o.key.startswith("QA1:cover")}

prop("C01", [per.per_rules, qa.qa_partition, bel.bellman_form, bel.masked_reduction, bel.twins,
             ker.ker_discrete, ker.ker_modeldags, ker.ker_weights, qa.qa_siblings, qa.qa_value_axes],
     "Backward-induction wiring by period offsets (R3), Bellman form u + beta*E[V] with a single discount site and "
     "none in the last period (R13.ALG1), feasibility-masked max with -inf neutral element (ALG2), max over exactly "
     "the dense choice axes then segments (KER + R2.QA3/QA4), partition of the variables into mapped families (QA1 "
     "cover), solver/simulator twins and jit arms (R14). Not decided: numerical equality with the mathematical maximum.",
     filter=COVER_ONLY)
prop("C02", [ker.ker_argmax, ker.ker_simulate, ker.ker_policy, bel.masked_reduction, bel.twins, qa.qa_siblings],
     "Arg-max primitives, index->grid-value retrieval and the discrete policy calculator agree with their reference "
     "forms (KER); policy = masked arg-max twin of the value function built from the same u_and_f (ALG2, R14); axes "
     "of the arg-max == dense grids of the data space (R2.QA3). Not decided: attainment up to floating point.")
prop("C03", [ker.ker_nextstate, ker.ker_nextstate_dag, ker.ker_random, ker.ker_routing],
     "Law of motion: sampler closure, next-state DAG assembly (samplers override placeholders), weight lookup in "
     "signature order agree with their reference forms (KER).")
prop("C04", [ker.ker_random, ker.ker_nextstate],
     "Key handling kernels: split per period (first key carried on), one key per stochastic next function, one "
     "sub-key per agent, choice(p=row, a=labels) (KER). Not decided: frequencies (contract of jax.random.choice).")
prop("C05", [qa.qa_sites, qa.qa_order, qa.qa_value_axes, qa.qa_siblings, ker.ker_statespace, ker.ker_util,
             ker.ker_dispatchers, bel.twins, per.per_rules],
     "Axis layout: canonical order is a partition with the required precedences, applied to the table and to grids "
     "(R2.QA2); axis_names == dense state axes, restricted axis first (QA4, AX3); sibling selections agree (QA3); "
     "row-major feasible combinations and dispatcher axis order agree with reference forms (KER); chronological "
     "list (R3.PER5). The QA part is exhaustive over all variable classes.",
     filter={"R3.PER": lambda o: o.key.startswith("PER5") or o.key.startswith("PER1:solve")})
prop("C06", [per.per_rules, bel.twins, bel.masked_reduction],
     "Solver and simulator use V_{t+1} with equal offsets and the same indexer/grid lists (R3), the same u_and_f "
     "object for value and policy, twin spacemap calls (R14, ALG2); solve_and_simulate == simulate with the model's "
     "solve bound (PER5).")
prop("C07", [ker.ker_template, ker.ker_routing, bel.bellman_form],
     "Template: free arguments = signature minus variables/functions/_period; shock shape = dependency sizes in "
     "signature order + own size; routing by own name params[name]; weights indexed in signature order (KER); beta "
     "read once (ALG1).",
     filter={"R13.ALG1": lambda o: "discount" in o.key or "beta" in o.key})
prop("C08", [ker.ker_simulate],
     "Agent independence: segment ids are the agent coordinate of the (agent x sparse-choice) rows; row-major "
     "product of sparse choices (KER).")
prop("C10", [ker.ker_dispatchers, ker.ker_wrappers, ker.ker_functools, qa.qa_order, ker.ker_util],
     "Renaming/permutation clauses: positions derived from signatures, keyword binding by name (KER dispatchers, "
     "wrappers); axis order depends only on variable class and declaration order (R2.QA2).")
prop("C11", [bel.bellman_form, per.per_rules],
     "Discounting structure: exactly one beta (degree 1) per period step, none in the last period, expectation is "
     "a plain weighted sum (ALG1); last-period flag is t == n_periods-1 (PER4). Not decided: the algebraic laws "
     "themselves.",
     filter={"R3.PER": lambda o: o.key.startswith("PER4") or "u_and_f" in o.key or "space_info" in o.key})
prop("C12", [ker.ker_gridclasses, ker.ker_modelvalidation, ker.ker_template, qa.qa_partition,
             qa.qa_indexer_axes_are_labels, qa.qa_stochastic_sets],
     "Forward direction: every documented rule has its guard with the documented exception class, run from the "
     "constructors / template creation (KER validators, QA5). Converse (necessary conditions): the solve space is a "
     "partition (QA1), indexer axes have label translators (QA6). Known findings D6.")
prop("C13", [ker.ker_frame, ker.ker_panel],
     "Panel: period-major concatenation, _period = repeat(arange(P), N), MultiIndex.from_product([P, N]) with level "
     "names, targets mapped row-wise over all non-params arguments (KER).")
prop("C14", [ker.ker_funcrep, ker.ker_funcrep_guard, ker.ker_interp, ker.ker_mapcoord],
     "Function representation building blocks (label translator, lookup, coordinate finder, interpolator, trailing "
     "axes guard) and the interpolation kernel agree with their reference forms (KER).")
prop("C15", [ker.ker_interp, ker.ker_mapcoord],
     "Interpolation kernel: lower index clipped to [0,size-2], weights (1-w, w), sum over corners; linear and log "
     "coordinates (KER, polynomial normal form).")
prop("C16", [ker.ker_grids, ker.ker_gridclasses],
     "Grid validation guards (types, finiteness, positivity for log grids, n_points >= 1, start < stop; discrete "
     "codes 0..n-1 in declaration order) and materialisation wrappers (KER).")
prop("C17", [ker.ker_statespace, ker.ker_space, ker.ker_masks, ker.ker_util, qa.qa_siblings, qa.qa_order],
     "State-choice space: filter mask, row-major masked mesh, ranks/-1 fill/segments agree with reference forms "
     "(KER); restricted = ancestors of filters (KER util); mask axes == combination axes, n_sparse_states (QA3); "
     "states before choices (QA2).")
prop("C18", [ker.ker_argmax, ker.ker_discrete, ker.ker_policy],
     "Arg-max primitives and the max/segment-max reduction agree with their reference forms (KER). Not decided: "
     "tie positions, attainment under XLA fusion (advisory in DESIGN.md).")
prop("C19", [ker.ker_dispatchers, ker.ker_wrappers, ker.ker_functools],
     "Dispatchers (reverse-order iterated vmap, joint vmap, nesting by put_dense_first, duplicate/overlap guards) and "
     "keyword/positional wrappers with their guards agree with reference forms (KER).")
prop("C20", [ker.ker_logsumexp],
     "Max-shifted segment log-sum-exp and the scale in/out structure agree with their reference forms (KER).")

PROPERTIES["C02"]["rules"] += [sim.row_domains, sim.sim_flow]
PROPERTIES["C02"]["explanation"] += " Row domains: every array derived from the (agent x sparse choice) rows is selected by the segment arg-max before it is stored or passed on (R4.AX5); value/policy wiring and unravel shapes (R15, AX6)."
PROPERTIES["C03"]["rules"] += [sim.sim_flow]
PROPERTIES["C03"]["explanation"] += " Def-use obligations of the period loop (R15): same-iteration states/choices/period/params feed next_state; period 0 = initial states; prefix stripping and nothing else."
PROPERTIES["C04"]["rules"] += [sim.key_rules]
PROPERTIES["C04"]["explanation"] += " Key typestate (R6): single seeded source, no ambient entropy, carried key advanced by each period's split, per-variable keys from the same split, stored results independent of the current key."
PROPERTIES["C08"]["rules"] += [sim.data_space_layout, sim.row_domains]
PROPERTIES["C08"]["explanation"] += " Product layout of the data space (R5.LAY1-2): states repeated per combination, choices tiled per agent, one mask for rows and segment ids; row domains (R4.AX5)."
PROPERTIES["C13"]["rules"] += [sim.sim_flow]
PROPERTIES["C13"]["explanation"] += " Flow of the per-period results into the panel, targets computed from (panel, model.functions, params of the call) (R15)."
PROPERTIES["C06"]["rules"] += [sim.sim_flow]

prop("C09", [eff.effects, eff.order_taint, sim.key_rules, bel.twins],
     "Purity: every store/mutating call in lcm acts on a fresh local (no global/nonlocal/captured/argument/alias "
     "mutation), no memoisation, the params template is never read by generated functions, user functions are "
     "deep-copied before wrapping (R8); no hash-ordered or name-ordered sequence reaches an order-sensitive sink, "
     "the one hash-ordered signature is consumed by name (R7); single seeded entropy source (R6.KEY1); params is a "
     "traced argument of the jitted solver (EFF4). Positive-control fixture analysed on every run.",
     filter={"R6.KEY": lambda o: o.key.startswith("KEY1"), "R14.SIB": lambda o: o.key.startswith(("EFF4", "R14:jit"))})
PROPERTIES["C10"]["rules"] += [eff.order_taint]
PROPERTIES["C10"]["explanation"] += " Order taint (R7): axis order never depends on names (alphabetical) or hash order."

PROPERTIES["C04"]["rules"] += [sim.sim_flow]
PROPERTIES["C04"].setdefault("filter", {})["R15.FLOW"] = lambda o: o.key.startswith(("FLOW:next-state", "FLOW:state-update", "FLOW:initial"))
PROPERTIES["C04"]["explanation"] += " The transition row is selected by the agent's period-t states, choices and period (R15 next-state obligations)."

PROPERTIES["C02"].setdefault("filter", {})["R15.FLOW"] = lambda o: o.key.startswith(("FLOW:value", "FLOW:policy", "AX6", "FLOW:continuous", "FLOW:data-space"))
PROPERTIES["C03"].setdefault("filter", {})["R15.FLOW"] = lambda o: o.key.startswith(("FLOW:next-state", "FLOW:state-update", "FLOW:initial", "FLOW:states-stored", "FLOW:data-space"))
PROPERTIES["C06"].setdefault("filter", {})["R15.FLOW"] = lambda o: o.key.startswith(("FLOW:value", "FLOW:continuous", "FLOW:data-space"))
PROPERTIES["C13"].setdefault("filter", {})["R15.FLOW"] = lambda o: o.key.startswith(("FLOW:targets", "FLOW:frame", "FLOW:panel", "FLOW:states-stored", "FLOW:initial"))

PROPERTIES["C12"]["rules"] += [imp.imports_resolve, splat.splat_families]
PROPERTIES["C12"]["explanation"] += " Imports and attribute chains resolve in the installed distribution, read as source (R1). Families of mapped variables vs. arguments accepted by u_and_f, over usage classes (R11): known findings D4, D5, D10."

PROPERTIES["C12"]["rules"] += [guard.grid_guards]
PROPERTIES["C12"]["explanation"] += " Grid guards decided on a witness set; every division/log applied to grid fields is defined for all accepted witnesses (R12 G-domain): known finding D8."
PROPERTIES["C16"]["rules"] += [guard.grid_guards]
PROPERTIES["C16"].setdefault("filter", {})["R12.GUARD"] = lambda o: o.key.startswith("G:")
PROPERTIES["C16"]["explanation"] += " Guards evaluated on 39 witness field triples (R12): every invalid triple is rejected, every valid one accepted, independent of how the conditions are spelled."

PROPERTIES["C12"]["rules"] += [guard.filter_params_guard]

PROPERTIES["C18"]["rules"] += [qa.qa_siblings, qa.qa_value_axes, ker.ker_modeldags, bel.masked_reduction]
PROPERTIES["C18"]["explanation"] += " Choice axes located by the discrete problem == dense choice axes of the array (R2.QA3/QA4); policy twin (ALG2)."

for _p in ("C01", "C02", "C03", "C06", "C12", "C13", "C14", "C17"):
    PROPERTIES[_p]["rules"] += [sig.call_arity]
    PROPERTIES[_p]["explanation"] += " Every statically resolved internal call binds exactly its callee's parameters (R10.ARITY)."
for _p in ("C01", "C09", "C10", "C12"):
    PROPERTIES[_p]["rules"] += [sig.u_and_f_signature]
PROPERTIES["C01"]["rules"] += [ker.ker_dispatchers, ker.ker_funcrep, ker.ker_funcrep_guard, ker.ker_statespace]
PROPERTIES["C02"]["rules"] += [ker.ker_dispatchers]
PROPERTIES["C08"]["rules"] += [ker.ker_dispatchers, ker.ker_argmax]
PROPERTIES["C01"]["explanation"] += " Signature of u_and_f (prefix filter, by-name rebinding) (R10.SIG); dispatchers and value-function representation agree with their reference forms (KER)."

PROPERTIES["C06"]["rules"] += [eff.effects]
PROPERTIES["C06"].setdefault("filter", {})["R8.EFF"] = lambda o: "simulate.simulate" in o.key or "solve_brute.solve" in o.key or o.key.startswith("EFF1:all-stores")
PROPERTIES["C06"]["explanation"] += " The value-array list handed to simulate is not modified (R8, restricted to solve/simulate)."
PROPERTIES["C12"]["rules"] += [ker.ker_nextstate, ker.ker_nextstate_dag, ker.ker_routing, ker.ker_modeldags, ker.ker_util, ker.ker_funcrep_guard]
PROPERTIES["C12"]["explanation"] += " Build-phase assembly functions (next-state DAGs, routing closures, model DAGs, variable info) agree with their reference forms (KER): a slip there turns an accepted model into an internal error."
PROPERTIES["C08"]["rules"] += [ker.ker_panel]
PROPERTIES["C10"]["rules"] += [bel.bellman_form, qa.qa_siblings]
PROPERTIES["C10"].setdefault("filter", {})["R13.ALG1"] = lambda o: o.key.startswith(("AX6", "ALG1:stochastic", "ALG1:nonlast:states", "ALG1:last:states"))
PROPERTIES["C10"]["explanation"] += " Node axes of values and weights come from one list in one order, whatever the declaration order of functions (AX6); sibling selections (QA3)."

# soft agreement of plumbing functions + definite-assignment
_SOFT = {
    "C01": [ker.soft_entry, ker.soft_solve, ker.soft_uandf, ker.soft_space],
    "C02": [ker.soft_simulate, ker.soft_entry],
    "C03": [ker.soft_simulate, ker.soft_process],
    "C04": [ker.soft_simulate],
    "C05": [ker.soft_varinfo, ker.soft_space, ker.soft_solve],
    "C06": [ker.soft_entry, ker.soft_simulate, ker.soft_solve],
    "C07": [ker.soft_process, ker.soft_uandf],
    "C08": [ker.soft_simulate],
    "C09": [ker.soft_entry, ker.soft_process],
    "C10": [ker.soft_varinfo, ker.soft_uandf],
    "C11": [ker.soft_uandf, ker.soft_entry],
    "C12": [ker.soft_process, ker.soft_entry, ker.soft_varinfo, ker.soft_space, ker.soft_uandf, ker.soft_simulate, ker.soft_solve],
    "C13": [ker.soft_simulate],
    "C14": [ker.soft_space],
    "C17": [ker.soft_space, ker.soft_varinfo],
    "C18": [ker.soft_space, ker.soft_entry],
}
for _p, _rules in _SOFT.items():
    PROPERTIES[_p]["rules"] += _rules + [sig.defined_before_use]
    PROPERTIES[_p]["explanation"] += (" Plumbing functions are additionally compared with their reviewed forms in SOFT mode (KERS): a "
                                      "deviation confined to a few small sites is refuted, a restructuring is left to the dataflow obligations; "
                                      "no definitely-unassigned value is used (R0.UNDEF).")

# attachments made after the third round of seeded changes: the rule that decides the clause was attached to a
# neighbouring property only
PROPERTIES["C05"]["rules"] += [eff.order_taint]
PROPERTIES["C05"]["explanation"] += " Axis order never comes from alphabetical / hash order of names (R7.ORD)."
PROPERTIES["C10"]["rules"] += [per.per_rules]
PROPERTIES["C10"]["explanation"] += (" Filter-restricted and constraint-restricted specifications agree only if every period reads V(t+1) through "
                                     "the state indexer of period t+1 (R3.PER).")
PROPERTIES["C11"]["rules"] += [eff.order_taint, ker.ker_weights]
PROPERTIES["C11"]["explanation"] += (" Degenerate transitions reproduce the deterministic solution only if node weights and node values are "
                                     "paired on the same axes (R7.ORD, KER weights).")
PROPERTIES["C18"]["rules"] += [per.per_rules]
PROPERTIES["C18"].setdefault("filter", {})["R3.PER"] = lambda o: o.key.startswith(("PER3", "PER4", "R3.PER"))
PROPERTIES["C18"]["explanation"] += " The segment arg-max of period t runs over the choice segments of period t (R3.PER3)."
PROPERTIES["C09"]["rules"] += [bel.masked_reduction]
PROPERTIES["C09"].setdefault("filter", {})["R13.ALG2"] = lambda o: "product-over-continuous-choices" in o.key or o.key.startswith("R13.ALG2")
PROPERTIES["C09"]["explanation"] += (" The axes of the continuous arg-max are the caller's list of continuous choices, not an order read back from a "
                                     "generated signature (ALG2 product-over-continuous-choices).")
PROPERTIES["C06"]["rules"] += [sim.data_space_layout]
PROPERTIES["C06"]["explanation"] += (" The simulator evaluates the solver's value functions on agents x sparse-choice combinations; the pairing of "
                                     "rows (R5.LAY) is part of that agreement.")

for _p in ("C07", "C12", "C19"):
    PROPERTIES[_p]["rules"] += [sig.no_decision_on_defaults]
    PROPERTIES[_p]["explanation"] += " No decision depends on whether an argument of a user function has a default value, nor -- outside the calling-convention converters of lcm.functools -- on its kind (R16.DEFAULTS, each clause with a positive control in the fixture)."

PROPERTIES["C20"]["rules"] += [bel.logsumexp_shift]
PROPERTIES["C20"]["explanation"] += " The shift inside exp is the maximum of the row's own segment and is added back (R13.LSE)."
PROPERTIES["C02"]["rules"] += [sim.data_space_layout]
PROPERTIES["C02"]["explanation"] += (" The choices an agent is offered are exactly those that pass the filters at the agent's states in the "
                                     "simulated period (R5.LAY2: same mask for rows and segments, all filters, _period = current period).")

for _p in ("C03", "C04", "C07", "C11"):
    PROPERTIES[_p]["rules"] += [sig.weight_index_order]
    PROPERTIES[_p]["explanation"] += (" The weight function indexes the transition array in the signature order of the next function, the "
                                      "order of the template's axes (R17.WORDER).")
PROPERTIES["C12"]["rules"] += [bel.bellman_form]
PROPERTIES["C12"].setdefault("filter", {})["R13.ALG1"] = lambda o: o.key.startswith(("AX6", "R13.ALG1"))
PROPERTIES["C12"]["explanation"] += (" Node values and node weights of stochastic states are laid out on the same axes (AX6): otherwise an accepted "
                                     "model with stochastic states of different sizes fails with a broadcasting error at the first solve.")

PROPERTIES["C14"]["rules"] += [guard.interpolation_axes_guard]
PROPERTIES["C14"]["explanation"] += " The axis-order guard is evaluated on all 2080 (axis order of <= 4 names, interpolated subset) witnesses: it raises iff the interpolated axes are not the trailing axes, and the representation applies it unconditionally (R12 INTERPAXES)."
PROPERTIES["C12"]["rules"] += [guard.interpolation_axes_guard]

for _p in ("C17", "C05", "C01"):
    PROPERTIES[_p]["rules"] += [qa.qa_restricted_from_ancestors]
PROPERTIES["C17"]["explanation"] += " A variable is filter-restricted iff it is an ancestor of a filter in the DAG of all model functions (R2.QA7)."

PROPERTIES["C15"]["rules"] += [ker.ker_gridclasses]
PROPERTIES["C15"].setdefault("filter", {})["KER.gridclasses"] = lambda o: any(
    k in o.key for k in ("Grid.get_coordinate", "Grid.to_jax", "floor"))
PROPERTIES["C15"]["explanation"] += (" The grid classes' own get_coordinate / to_jax methods pass exactly (start, stop, n_points) to the "
                                     "coordinate helpers and return their result unchanged (KER gridclasses, coordinate methods only).")

for _p in ("C01", "C08", "C18", "C20"):
    PROPERTIES[_p]["rules"] += [bel.segment_paths]
    PROPERTIES[_p]["explanation"] += " Every result path of a segment reducer goes through a segment operation (R14.SEGPATH): block reductions of a reshaped array are not accepted as a stand-in."

PROPERTIES["C04"]["rules"] += [eff.order_taint]
PROPERTIES["C04"].setdefault("filter", {})["R7.ORD"] = lambda o: ":hash" in o.key or "positive-control" in o.key or o.key.startswith("ORD:no-")
PROPERTIES["C04"]["explanation"] += (" Nothing the simulation computes depends on PYTHONHASHSEED: no set order reaches an order-sensitive "
                                     "sink and the built-in hash() is not used (R7.ORD, hash clauses).")

PROPERTIES["C13"]["rules"] += [eff.effects]
PROPERTIES["C13"].setdefault("filter", {})["R8.EFF"] = lambda o: o.key.startswith("EFF1")
PROPERTIES["C13"]["explanation"] += (" The panel and its additional targets are a function of this call's arguments: no function keeps state "
                                     "between calls (module-level caches, memoisation, stores on non-local objects) (R8.EFF1).")

# own-property attachments found missing by the fifth seed round
PROPERTIES["C05"]["filter"]["R3.PER"] = lambda o: o.key.startswith(("PER5", "PER1:solve", "PER3:solve:state_choice_space", "PER3:solve:emax"))
PROPERTIES["C05"]["explanation"] += " The array of period t is computed on the state-choice space (and with the segments) of period t (PER3)."
PROPERTIES["C09"]["rules"] += [ker.ker_random]
PROPERTIES["C09"].setdefault("filter", {})["KER.random"] = lambda o: "_generate_simulation_keys" in o.key or "floor" in o.key
PROPERTIES["C09"]["explanation"] += " The per-variable keys are generated from the ordered list of stochastic functions as in the reviewed form (KER random, key generation only)."
PROPERTIES["C10"]["rules"] += [ker.ker_weights]
PROPERTIES["C10"]["explanation"] += " The joint node weights are laid out over the stochastic variables in the caller's order (KER weights)."

for _p in ("C10", "C19", "C11"):
    PROPERTIES[_p]["rules"] += [sig.rebinding_by_name]
    PROPERTIES[_p]["explanation"] += (" Every function with an explicit signature over *args/**kwargs rebinds by name with the list of that "
                                      "signature and uses nothing else of the raw call (R10.BYNAME, 11 sites).")
PROPERTIES["C11"]["filter"]["R3.PER"] = lambda o: o.key.startswith(("PER4", "PER3:solve:compute_ccv", "PER3:simulate:compute_ccv")) or "u_and_f" in o.key or "space_info" in o.key
PROPERTIES["C11"]["explanation"] += " The continuation-value function used in period t is the one built for period t (PER3 compute_ccv)."

for _p in ("C17", "C01", "C08", "C12"):
    PROPERTIES[_p]["rules"] += [sig.user_dags_called_through_dispatchers]
PROPERTIES["C17"]["explanation"] += " Functions assembled from the model functions are evaluated point by point through a dispatcher, never on whole grids (R10.SCALAR)."

# --------------------------------------------------------------------------------------------------------------------
# Data-path closure (sixth seed round, "indirect breakage"): a property about an end-to-end result is checked with every
# rule that decides code on the path from the user's model to that result, not only with the rules of the functions its
# anchors name.  The rules are unchanged; they are attached to more properties (obligations of an added rule are not
# filtered).


def _union(*pids):
    out, seen = [], set()
    for p in pids:
        for r in PROPERTIES[p]["rules"]:
            if r.rule_name not in seen:
                seen.add(r.rule_name)
                out.append(r)
    return out


_SOLVE_PATH = _union("C01", "C05", "C07", "C10", "C11", "C14", "C15", "C17", "C18", "C19", "C20")
_SIM_PATH = _SOLVE_PATH + [r for r in _union("C02", "C03", "C04", "C08") if r.rule_name not in {x.rule_name for x in _SOLVE_PATH}]
_TRANSITION_PATH = _union("C03", "C04", "C07", "C19")
_TRANSITION_PATH = _TRANSITION_PATH + [r for r in _union("C13") if r.rule_name not in {x.rule_name for x in _TRANSITION_PATH}]
_REPRESENTATION_PATH = _union("C14", "C15", "C16", "C17")
_REDUCTION_PATH = _union("C18", "C20", "C17", "C05")
_DISPATCH_USERS = [bel.masked_reduction, bel.bellman_form, eff.order_taint]
for _p, _rules, _what in (("C01", _SOLVE_PATH, "solve"), ("C10", _SOLVE_PATH, "solve"), ("C11", _SOLVE_PATH, "solve"),
                          ("C05", _SOLVE_PATH, "solve"), ("C17", _SOLVE_PATH, "solve"),
                          ("C06", _SIM_PATH, "solve and simulate"), ("C02", _SIM_PATH, "solve and simulate"),
                          ("C08", _SIM_PATH, "solve and simulate"), ("C09", _SIM_PATH, "solve and simulate"),
                          ("C13", _SIM_PATH, "solve and simulate"), ("C18", _SIM_PATH, "solve and simulate"),
                          ("C03", _TRANSITION_PATH, "the simulated transitions and their report"),
                          ("C04", _TRANSITION_PATH, "the simulated transitions and their report"),
                          ("C07", _TRANSITION_PATH, "the parameters of the transitions"),
                          ("C14", _REPRESENTATION_PATH, "the function representation (grids, state space, interpolation)"),
                          ("C15", _REPRESENTATION_PATH, "the function representation (grids, state space, interpolation)"),
                          ("C20", _REDUCTION_PATH, "the discrete reduction (segments, choice axes)"),
                          ("C19", _DISPATCH_USERS, "the users of the dispatchers")):
    _have = {r.rule_name for r in PROPERTIES[_p]["rules"]}
    _added = [r for r in _rules if r.rule_name not in _have]
    PROPERTIES[_p]["rules"] += _added
    for _r in _added:
        # a rule that is restricted to some of its obligations where it comes from keeps that restriction
        for _src in ("C01", "C05", "C07", "C10", "C11", "C14", "C15", "C17", "C18", "C19", "C20", "C02", "C03", "C04", "C08", "C13", "C16"):
            _f = PROPERTIES[_src].get("filter", {}).get(_r.rule_name)
            if _f is not None and _r in PROPERTIES[_src]["rules"]:
                PROPERTIES[_p].setdefault("filter", {})[_r.rule_name] = _f
                break
    if _added:
        PROPERTIES[_p]["explanation"] += (f" Data-path closure: additionally every rule that decides code on the path of {_what} "
                                          f"({', '.join(sorted(r.rule_name for r in _added))}).")
PROPERTIES["C19"].setdefault("filter", {})["R13.ALG1"] = lambda o: o.key.startswith(("AX6", "R13.ALG1"))
PROPERTIES["C13"]["filter"]["R8.EFF"] = lambda o: o.key.startswith(("EFF1", "EFF2:user-functions-deep-copied"))
PROPERTIES["C13"]["explanation"] += " Every function of the user's model is carried into the internal model (deep copy of model.functions as a whole: targets may name any of them)."
