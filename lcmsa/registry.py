"""Which rules decide which property."""

from lcmsa import rules_per as per
from lcmsa import rules_qa as qa

TRUSTED_COMMON = [
    "CPython ast module (parsing)",
    "semantics of jax.vmap / jax.ops.segment_max / jax.random as summarised in DESIGN.md",
    "dags.concatenate_functions (argument order alphabetical; strict signatures unless enforce_signature=False)",
    "pandas DataFrame.query evaluates the boolean formula it is given",
]
ASSUMPTIONS_COMMON = [
    "the analysed tree is /repo/src/lcm as found on disk at the time of the run",
    "structural clauses only: no claim about floating-point values",
]

PROPERTIES = {}


def prop(pid, rules, explanation, **kw):
    PROPERTIES[pid] = {"rules": rules, "explanation": explanation, **kw}


prop("C05", [qa.qa_sites, qa.qa_order, qa.qa_value_axes, qa.qa_siblings],
     "R2 query algebra: canonical order partition/precedences, axis_names, sibling selections")

prop("C01", [per.per_rules, qa.qa_partition], "R3 period offsets; R2 partition",
     filter={"R2.QA1": lambda o: o.key.startswith("QA1:cover")})

prop("C06", [per.per_rules], "R3 period offsets (solver and simulator agree)")

from lcmsa import rules_kernel as ker  # noqa: E402

prop("C18", [ker.ker_argmax, ker.ker_discrete], "kernel agreement: arg-max primitives and discrete reduction")
prop("C20", [ker.ker_logsumexp], "kernel agreement: log-sum-exp forms")
prop("C15", [ker.ker_interp], "kernel agreement: interpolation kernel and coordinates")
prop("C02", [ker.ker_argmax, ker.ker_simulate], "kernel agreement")

from lcmsa import rules_bellman as bel  # noqa: E402

PROPERTIES["C01"]["rules"] += [bel.bellman_form, bel.masked_reduction, bel.twins, ker.ker_discrete]
prop("C11", [bel.bellman_form, per.per_rules], "discounting structure")
PROPERTIES["C06"]["rules"] += [bel.twins, bel.masked_reduction]
PROPERTIES["C02"]["rules"] += [bel.masked_reduction, bel.twins]
prop("C14", [ker.ker_interp], "kernel")
