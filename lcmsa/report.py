"""Obligations, verdicts, known findings, evidence files."""

from __future__ import annotations

import functools
import json
import re
import time
import traceback
from dataclasses import dataclass, field
from pathlib import Path

from lcmsa.core import AnalysisError, Program, show

VERIF = Path(__file__).resolve().parent.parent
PROVED, REFUTED, UNDECIDED = "PROVED", "REFUTED", "UNDECIDED"


@dataclass
class Ob:
    rule: str  # e.g. "R3.PER2"
    key: str  # construct key, no line numbers
    status: str
    where: str  # file:line for the reader
    detail: str
    lhs: str = ""
    rhs: str = ""
    nontrivial: bool = True  # compared two non-top abstract values
    advisory: bool = False

    def as_dict(self):
        d = {
            "rule": self.rule,
            "key": self.key,
            "status": self.status,
            "where": self.where,
            "detail": self.detail,
        }
        if self.lhs:
            d["lhs"] = self.lhs[:400]
        if self.rhs:
            d["rhs"] = self.rhs[:400]
        return d


class Ctx:
    """Collects obligations of one rule run."""

    def __init__(self, prog: Program):
        self.prog = prog
        self.obs: list[Ob] = []
        self.advisories: list[str] = []
        self.counts: dict[str, int] = {}
        self.rule = "?"

    def ob(self, key, ok, where="", detail="", lhs="", rhs="", rule=None, *, nontrivial=True):
        status = PROVED if ok is True else REFUTED if ok is False else UNDECIDED
        if not isinstance(lhs, str):
            lhs = show(lhs)
        if not isinstance(rhs, str):
            rhs = show(rhs)
        o = Ob(rule or self.rule, key, status, where, detail, lhs, rhs, nontrivial)
        self.obs.append(o)
        return o

    def undecided(self, key, detail, where=""):
        return self.ob(key, None, where, detail, nontrivial=False)

    def advisory(self, text):
        self.advisories.append(text)

    def count(self, name, n=1):
        self.counts[name] = self.counts.get(name, 0) + n

    def floor(self, name, minimum):
        """Vacuity guard: the rule must have seen at least ``minimum`` instances."""
        n = self.counts.get(name, 0)
        if n < minimum:
            self.undecided(
                f"{self.rule}:floor:{name}",
                f"instance floor missed: found {n} {name}, confirmed by hand: >= {minimum}",
            )


def rule(name):
    """Decorator: run a rule function, turning analysis errors into UNDECIDED."""

    def deco(fn):
        @functools.wraps(fn)
        def wrapper(ctx: Ctx):
            prev = ctx.rule
            ctx.rule = name
            try:
                fn(ctx)
            except AnalysisError as e:
                ctx.undecided(f"{name}:anchor", f"cannot analyse: {e}")
            except Exception as e:  # noqa: BLE001
                tb = traceback.format_exc(limit=4)
                ctx.undecided(f"{name}:crash", f"analyser error {type(e).__name__}: {e}\n{tb}")
            finally:
                ctx.rule = prev

        wrapper.rule_name = name
        return wrapper

    return deco


# ======================================================================================
# Known findings
# ======================================================================================


@dataclass
class Known:
    prop: str
    key: str
    text: str


def load_known(path: Path | None = None) -> list[Known]:
    path = path or (VERIF / "KNOWN_FINDINGS.txt")
    out = []
    if not path.exists():
        return out
    for line in path.read_text().splitlines():
        line = line.strip()
        m = re.match(r"known:\s+property=(\S+)\s+key=(\S+)\s+(.*)$", line)
        if m:
            out.append(Known(m.group(1), m.group(2), m.group(3)))
    return out


# ======================================================================================
# Evidence
# ======================================================================================


@dataclass
class Result:
    prop: str
    obs: list[Ob]
    advisories: list[str]
    counts: dict
    extra: dict = field(default_factory=dict)


def write_evidence(prop, tier, seed, res: Result, prog: Program, wall, known_hit, violations,
                   explanation, trusted, assumptions, cmd, selftest=None):
    obs = res.obs
    proved = [o for o in obs if o.status == PROVED]
    refuted = [o for o in obs if o.status == REFUTED]
    undec = [o for o in obs if o.status == UNDECIDED]
    distinct = {o.key for o in obs if o.nontrivial and o.status != UNDECIDED}
    samples = [o.as_dict() for o in (refuted + undec)[:6]]
    # a spread of proved obligations, one per rule first
    seen = set()
    for o in proved:
        if o.rule not in seen:
            seen.add(o.rule)
            samples.append(o.as_dict())
    samples = samples[:24]
    cov = {
        "explanation": explanation,
        "evaluations": len(obs),
        "distinct_nontrivial": len(distinct),
        "rule": "one evaluation = one proof obligation instantiated from the current source "
                "tree; distinct = distinct construct keys (rule:function:role, no line "
                "numbers); non-trivial = the obligation compared two abstract values that "
                "were both computed from the source (not top / not vacuous)",
        "obligations": len(obs),
        "discharged": len(proved),
        "refuted": len(refuted),
        "undecided": len(undec),
        "known_findings": [k for k in known_hit],
        "samples": samples,
        "checker_cmd": cmd,
        "trusted_base": trusted,
        "modules_analysed": {m.name: m.sha256[:16] for m in prog.modules.values()},
        "functions_indexed": len(prog.funcs),
        "instance_counts": res.counts,
        "advisories": res.advisories,
        "rules_applied": sorted({o.rule for o in obs}),
        "exhaustive": False,
    }
    cov.update(res.extra)
    if selftest is not None:
        cov["selftest"] = selftest
    ev = {
        "property_id": prop,
        "tier": tier,
        "seed": seed,
        "level": "other",
        "coverage": cov,
        "assumptions": assumptions,
        "wall_s": round(wall, 3),
        "violations": violations,
    }
    out = VERIF / "evidence" / f"{prop}.json"
    out.parent.mkdir(exist_ok=True)
    out.write_text(json.dumps(ev, indent=1, default=str) + "\n")
    return out


def now():
    return time.perf_counter()
