"""R13 ALG1/ALG2 + R14: Bellman form of u_and_f, masked reductions, solver/simulator twins."""

from __future__ import annotations

from fractions import Fraction

from lcmsa.alg import NEG_INF, first_difference, norm, poly
from lcmsa.core import AnalysisError, callee_name, is_term, kw, show, walk
from lcmsa.formula import parse
from lcmsa.match import all_frames, calls_in, effective_formula, frame_terms, loop_terms, need, selections
from lcmsa.report import Ctx, rule
from lcmsa.rules_kernel import _rename, param_names

MF = "lcm.model_functions"
UF = f"{MF}.get_utility_and_feasibility_function"
EP = "lcm.entry_point"


def _closures(prog, factory, name):
    fr = prog.frame(factory)
    from lcmsa.match import product_closures

    cids = product_closures(prog, fr)  # the nested defs that are returned, whatever their name
    out = []
    for cid in cids:
        info, _snap, conds = prog.closures[cid]
        out.append((cid, conds, prog.closure_frame(cid)))
    return fr, out


def _is_last(conds):
    for c in conds:
        neg = False
        while c[0] in ("not", "unop"):
            if c[0] == "not":
                c, neg = c[1], not neg
            elif c[1] == "not":
                c, neg = c[2], not neg
            else:
                break
        if c[0] == "param" and c[2] == "is_last_period":
            return not neg
    return None


@rule("R13.ALG1")
def bellman_form(ctx: Ctx):
    prog = ctx.prog
    fr, cl = _closures(prog, UF, "u_and_f")
    need(len(cl) == 2, f"expected a last-period and a non-last u_and_f closure, found {len(cl)}")
    last = [c for c in cl if _is_last(c[1]) is True]
    nonlast = [c for c in cl if _is_last(c[1]) is False]
    need(len(last) == 1 and len(nonlast) == 1, "u_and_f closures are not selected by is_last_period")
    period_param = ("param", UF, "period")

    # ------------------------------------------------------------ non-last period
    cid, _c, cf = nonlast[0]
    r = cf.ret
    where = prog.node_where(cf.module, prog.closures[cid][0].node)
    need(r[0] == "tuple" and len(r[1]) == 2, "non-last u_and_f does not return a pair")
    big_u, f = r[1]
    need(f[0] == "sub" and f[2] == ("const", 1) and f[1][0] == "call", "feasibility is not the 2nd result of a call")
    cu = f[1]
    cur = cu[1]
    ok = callee_name(cur) == f"{MF}.get_current_u_and_f"
    ctx.ob("ALG1:feasibility", ok if ok else None, where,
           "u_and_f returns the feasibility computed by current_u_and_f unchanged" if ok else
           "feasibility source not recognised", lhs=f)
    u = ("sub", cu, ("const", 0))
    p = poly(big_u)
    nu = norm(u)
    # find beta atom: params["beta"]
    kwargs_term = None
    beta_atoms = []
    for s in walk(big_u):
        if s[0] == "sub" and s[2] == ("const", "beta"):
            beta_atoms.append(s)
    need(beta_atoms, "no params['beta'] in the non-last u_and_f")
    beta = beta_atoms[0]
    nbeta = norm(beta)
    mono_u = ((nu, 1),)
    others = {m: c for m, c in p.items() if m != mono_u}
    ok_u = p.get(mono_u) == Fraction(1)
    ctx.ob("ALG1:utility-term", ok_u, where,
           "current utility enters with coefficient 1" if ok_u else
           f"current utility enters with coefficient {p.get(mono_u)}", lhs=big_u)
    ok_b = len(others) == 1
    ccv_atom = None
    if ok_b:
        (m, c), = others.items()
        d = dict(m)
        ok_b = c == 1 and d.get(nbeta) == 1 and len(m) == 2
        if ok_b:
            ccv_atom = [a for a, k in m if a != nbeta][0]
            ok_b = dict(m)[ccv_atom] == 1
    ctx.ob("ALG1:discount-term", ok_b, where,
           "the continuation value is discounted exactly once: u + beta * ccv" if ok_b else
           "the continuation term is not beta (degree 1) times the expected continuation value", lhs=big_u,
           rhs="u + params['beta'] * ccv")
    # beta is params["beta"] of the call's params
    pb = beta[1]
    okp = pb[0] == "sub" and pb[2] == ("const", "params") and callee_name(pb[1]) == "lcm.functools.all_as_kwargs"
    ctx.ob("ALG1:beta-source", okp if okp else None, where,
           "beta is read from the params argument of this call: kwargs['params']['beta']" if okp else
           "source of beta not recognised", lhs=beta)
    # ccv = (ccvs_at_nodes * node_weights).sum()
    if ccv_atom is not None:
        ok_s = ccv_atom[0] == "op" and ccv_atom[1] == "sum" and not [k for k, _ in ccv_atom[2] if k != "a"]
        inner = dict(ccv_atom[2]).get("a") if ccv_atom[0] == "op" else None
        wrong_red = ccv_atom[0] == "op" and (ccv_atom[1] in ("mean", "max", "min", "prod", "nansum", "median", "average", "cumsum")
                                            or (ccv_atom[1] == "sum" and not ok_s))
        ctx.ob("ALG1:expectation-sum", True if ok_s else False if wrong_red else None, where,
               "the expectation is the plain sum over all stochastic nodes" if ok_s else
               f"the expectation is not a plain .sum() over all nodes: {ccv_atom[1] if ccv_atom[0] == 'op' else ccv_atom[0]}",
               lhs=show(big_u)[-200:])
        # locate the raw product term
        raw = None
        for s in walk(big_u):
            if s[0] == "call" and s[1][0] == "attr" and s[1][2] == "sum":
                raw = s[1][1]
            elif s[0] == "call" and callee_name(s) == "jax.numpy.sum" and s[2]:
                raw = s[2][0]
        need(raw is not None, "weighted node values not found")
        pr = poly(raw)
        ok_p = len(pr) == 1 and list(pr.values())[0] == 1 and len(list(pr)[0]) == 2 and all(k == 1 for _, k in list(pr)[0])
        ctx.ob("ALG1:weights-times-values", ok_p, where,
               "node values are multiplied by the node weights (one factor each)" if ok_p else
               "the summand is not (value at node) * (weight of node)", lhs=raw)
        vf_call = w_call = None
        if raw[0] == "binop" and raw[1] == "*":
            for side in (raw[2], raw[3]):
                if side[0] == "call" and callee_name(side[1]) == "lcm.dispatchers.productmap" and callee_name(side[1][2][0] if side[1][2] else kw(side[1], "func")) != f"{MF}.get_multiply_weights":
                    vf_call = side
                elif side[0] == "call" and callee_name(side[1]) == f"{MF}.get_multiply_weights":
                    w_call = side
        need(vf_call is not None and w_call is not None,
             "node values / node weights are not produced by productmap(value function) and get_multiply_weights")
        # order source: the same stochastic-variable list on both sides
        pm = vf_call[1]
        variables = kw(pm, "variables") or (pm[2][1] if len(pm[2]) > 1 else None)
        sv_w = w_call[1][2][0] if w_call[1][2] else kw(w_call[1], "stochastic_variables")
        need(variables is not None and sv_w is not None, "node axes not found")
        ok_o = (
            variables[0] == "comp" and variables[1] == "list" and variables[3][0][1] == sv_w
            and variables[2] == ("fstr", (("const", "next_"), variables[3][0][0]))
        )
        ctx.ob("AX6:node-axes", ok_o, where,
               "node values are mapped over next_<v> and weights over weight_next_<v> for the same list v "
               "of stochastic variables in the same order" if ok_o else
               "the node axes of the value array and of the weight array come from different lists/orders",
               lhs=variables, rhs=sv_w)
        sq = selections(sv_w)
        if sq:
            fsv, _ = effective_formula(sq[0], {})
            ctx.ob("ALG1:stochastic-selection", fsv == parse("is_stochastic"), where,
                   "nodes range over the stochastic states", lhs=show(sv_w), rhs="is_stochastic")
        # value function: get_function_representation(space_info=<param>, input_prefix="next_")
        sv = pm[2][0] if pm[2] else kw(pm, "func")
        ok_v = (
            callee_name(sv) == "lcm.function_representation.get_function_representation"
            and kw(sv, "space_info") == ("param", UF, "space_info")
            and kw(sv, "input_prefix") == ("const", "next_")
            and kw(sv, "name_of_values_on_grid") == ("param", UF, "name_of_values_on_grid")
        )
        ctx.ob("ALG1:value-function", ok_v, where,
               "V_next is the representation of the array named by name_of_values_on_grid on the factory's "
               "space_info with inputs next_<state>" if ok_v else "value function not built from the factory's space_info",
               lhs=sv)
        # next states splatted into the value function
        ns = [v for k, v in vf_call[3] if k is None]
        ns_call = [x for x in ns if x[0] == "call" and callee_name(x[1]) == "lcm.next_state.get_next_state_function"]
        ok_n = len(ns_call) == 1 and kw(ns_call[0][1], "target", None) in (("const", "solve"),) or (
            len(ns_call) == 1 and len(ns_call[0][1][2]) > 1 and ns_call[0][1][2][1] == ("const", "solve"))
        if len(ns_call) == 1 and not ok_n:
            tg = kw(ns_call[0][1], "target")
            ok_n = tg == ("const", "solve")
        ctx.ob("ALG1:next-states", bool(ok_n), where,
               "V_next is evaluated at the next states given by the model's transition functions (target 'solve')"
               if ok_n else "the value function is not evaluated at next_state(...)", lhs=show(vf_call)[:200])
        wn = [v for k, v in w_call[3] if k is None]
        w_src = [x for x in wn if x[0] == "call" and callee_name(x[1]) == f"{MF}.get_next_weights_function"]
        ctx.ob("ALG1:weights-source", len(w_src) == 1, where,
               "node weights are the model's transition weights" if len(w_src) == 1 else
               "node weights are not produced by next_weights(...)", lhs=show(w_call)[:200])
        # same arguments for the three inner calls
        if ns_call and w_src:
            a0, a1, a2 = cu[3], ns_call[0][3], w_src[0][3]
            same = a0 == a1 == a2 and cu[2] == ns_call[0][2] == w_src[0][2]
            ctx.ob("ALG1:same-arguments", same, where,
                   "utility, transitions and weights are evaluated at the same states, choices, period and params"
                   if same else "utility / transitions / weights receive different arguments",
                   lhs=show(cu)[:150], rhs=show(ns_call[0])[:150])
        # _period=period
        pk = kw(cu, "_period")
        opaque = pk is None and any(k is None and not (is_term(v) and v[0] == "comp") for k, v in cu[3])  # **something unresolved
        ctx.ob("ALG1:period-argument", None if opaque else pk == period_param, where,
               "the model functions receive _period = the period this u_and_f was built for" if pk == period_param
               else f"_period is {show(pk) if pk else 'missing'}", lhs=pk if pk else "missing", rhs="period")
        _states_choices(ctx, prog, cu, where, "nonlast")

    # ------------------------------------------------------------ last period
    cid, _c, cfl = last[0]
    rl = cfl.ret
    wherel = prog.node_where(cfl.module, prog.closures[cid][0].node)
    okl = rl[0] == "call" and callee_name(rl[1]) == f"{MF}.get_current_u_and_f"
    no_cont = not any(
        (s[0] == "const" and s[1] == "beta")
        or callee_name(s) in ("lcm.function_representation.get_function_representation", "lcm.next_state.get_next_state_function")
        for s in walk(_strip_argnames(rl))
    )
    ctx.ob("ALG1:last-period", okl and no_cont, wherel,
           "the last-period u_and_f is current utility and feasibility only (no beta, no value function)"
           if okl and no_cont else "the last-period u_and_f contains a continuation term", lhs=show(rl)[:200])
    if okl:
        pk = kw(rl, "_period")
        opaque = pk is None and any(k is None and not (is_term(v) and v[0] == "comp") for k, v in rl[3])
        ctx.ob("ALG1:last-period:period-argument", None if opaque else pk == period_param, wherel,
               "_period = period in the last period", lhs=pk if pk else "missing", rhs="period")
        _states_choices(ctx, prog, rl, wherel, "last")
    # beta is read nowhere else
    n_beta = 0
    sites = []
    for name, f_ in all_frames(prog).items():
        if name.startswith("lcmref"):
            continue
        for t in frame_terms(f_) + loop_terms(prog, f_):
            for s in walk(t):
                if s[0] == "sub" and s[2] == ("const", "beta") and name.split("@")[0] not in sites:
                    sites.append(name.split("@")[0])
    ctx.ob("ALG1:single-discount-site", len(sites) == 1, where,
           "params['beta'] is read at exactly one place (the non-last u_and_f)" if len(sites) == 1 else
           f"params['beta'] is read in {sites}", lhs=str(sites))
    ctx.count("u_and_f_closures", 2)


def _strip_argnames(t):
    """Remove arg_names= sub-terms (they mention all relevant functions by construction)."""
    if not isinstance(t, tuple):
        return t
    if is_term(t) and t[0] == "call" and callee_name(t) in ("lcm.functools.all_as_kwargs", "lcm.functools.all_as_args"):
        return ("call", t[1], (), ())
    return tuple(_strip_argnames(x) if isinstance(x, tuple) else x for x in t)


def _states_choices(ctx, prog, call, where, tag):
    """**states, **choices are the kwargs filtered by the state / choice selections."""
    sp = [v for k, v in call[3] if k is None]
    fs = []
    for d in sp:
        if d[0] == "comp" and d[1] == "dict" and d[3][0][2]:
            cond = d[3][0][2][0]
            q = selections(cond)
            if q:
                f, _ = effective_formula(q[0], {})
                fs.append(f)
    want = {parse("is_state"), parse("is_choice")}
    ok = set(fs) == want
    ctx.ob(f"ALG1:{tag}:states-and-choices", ok if fs else None, where,
           "the model functions receive exactly the state and the choice arguments" if ok else
           f"argument selections are {fs}", lhs=str(fs), rhs="is_state, is_choice")


# ======================================================================================
# continuous reduction and its policy twin
# ======================================================================================


def _wrapped_uf(prog, factory, where_cb):
    fr = prog.frame(f"{EP}.{factory}")
    return fr


@rule("R13.ALG2")
def masked_reduction(ctx: Ctx):
    prog = ctx.prog
    fv, cv = _closures(prog, f"{EP}.create_compute_conditional_continuation_value", "compute_ccv")
    fp, cp = _closures(prog, f"{EP}.create_compute_conditional_continuation_policy", "compute_ccv_policy")
    need(len(cv) == 1 and len(cp) == 1, "compute_ccv / compute_ccv_policy closures not found")
    for tag, (cid, _c, cf), factory in (("value", cv[0], fv), ("policy", cp[0], fp)):
        where = prog.node_where(cf.module, prog.closures[cid][0].node)
        r = cf.ret
        calls = [s for s in walk(r) if s[0] == "call" and s[2] and s[2][0][0] == "star"]
        inner = None
        for s in walk(r):
            if s[0] == "sub" and s[2] in (("const", 0), ("const", 1)) and s[1][0] == "call" and s[1][1][0] in ("phi", "ifexp", "param", "call"):
                inner = s[1]
        need(inner is not None, f"compute_ccv ({tag}): the u_and_f call was not found")
        u, f = ("sub", inner, ("const", 0)), ("sub", inner, ("const", 1))
        # the wrapped function: productmap(u_and_f, continuous choices) iff there are any
        from lcmsa.rules_kernel import covered_functions

        w = prog.expand(inner[1], skip=covered_functions(prog))  # see through a helper that a refactoring extracted
        q = factory.qualname
        uf_param = ("param", q, "utility_and_feasibility")
        cc_param = ("param", q, "continuous_choice_variables")
        okw = (
            w[0] in ("phi", "ifexp") and w[1] == cc_param and w[3] == uf_param
            and callee_name(w[2]) == "lcm.dispatchers.productmap"
            and (kw(w[2], "func") or w[2][2][0]) == uf_param
            and (kw(w[2], "variables") or (w[2][2][1] if len(w[2][2]) > 1 else None)) == cc_param
        )
        verdict, why = (True, "u_and_f is mapped over the product of all continuous choice grids") if okw else \
            (None, "wrapping of u_and_f over the continuous choices not recognised")
        if not okw:
            # the ORDER of the mapped names defines the axes of the arg-max: it must be the caller's list.  A list that
            # iterates something else (a signature, a set, sorted names) and only filters by membership in the caller's
            # list takes its order from that other source.
            for pm in (s_ for s_ in walk(w) if s_[0] == "call" and callee_name(s_) == "lcm.dispatchers.productmap"):
                v = kw(pm, "variables") or (pm[2][1] if len(pm[2]) > 1 else None)
                if v is None or v == cc_param:
                    continue
                if v[0] == "comp" and len(v[3]) == 1 and v[3][0][1] != cc_param and not any(x == cc_param for x in walk(v[3][0][1])) \
                        and any(x == cc_param for c in v[3][0][2] for x in walk(c)):
                    verdict, why = False, (f"the mapped names are iterated from {show(v[3][0][1])[:60]} and only filtered by the caller's "
                                           "list: the axis order of the arg-max is not the caller's order")
                elif callee_name(v) in ("builtins.sorted", "builtins.set", "builtins.reversed") and any(x == cc_param for x in walk(v)):
                    verdict, why = False, f"the mapped names are {callee_name(v).split('.')[-1]}(...) of the caller's list: another axis order"
        ctx.ob(f"ALG2:{tag}:product-over-continuous-choices", verdict, where, why, lhs=w)
        n = norm(r)
        if tag == "value":
            want = ("op", "max", tuple(sorted({"a": norm(u), "where": norm(f), "initial": NEG_INF}.items())), (), ())
            ok = n == want
            ctx.ob("ALG2:value:masked-max", ok, where,
                   "ccv = max of utility over all continuous choices where feasible, -inf if none is feasible"
                   if ok else f"continuous reduction is not u.max(where=f, initial=-inf): {first_difference(n, want)}",
                   lhs=r, rhs="u.max(where=f, initial=-inf)")
        else:
            am = [s for s in walk(r) if callee_name(s) == "lcm.argmax.argmax"]
            need(am, "policy: argmax is not called")
            a = am[0]
            okp = (
                (a[2][0] if a[2] else kw(a, "a")) == u and kw(a, "where") == f
                and norm(kw(a, "initial")) == NEG_INF and kw(a, "axis") is None and len(a[2]) <= 1
            )
            ctx.ob("ALG2:policy:masked-argmax", okp, where,
                   "policy = arg-max of utility over all continuous choices where feasible (initial -inf)" if okp
                   else "the policy is not argmax(u, where=f, initial=-inf) over all axes", lhs=a)
            okr = r in (("tuple", (("sub", a, ("const", 0)), ("sub", a, ("const", 1)))), a)
            ctx.ob("ALG2:policy:returns-index-then-max", okr, where,
                   "returns (arg-max index, maximum)" if okr else "return order is not (index, maximum)", lhs=r)
    # twins in get_lcm_function: both built from the same u_and_f object and choice list
    glf = prog.frame(f"{EP}.get_lcm_function")
    a = calls_in(tuple(loop_terms(prog, glf)), f"{EP}.create_compute_conditional_continuation_value")
    b = calls_in(tuple(loop_terms(prog, glf)), f"{EP}.create_compute_conditional_continuation_policy")
    need(a and b, "get_lcm_function does not build both compute functions")
    same = a[0][2] == b[0][2] and a[0][3] == b[0][3]
    ctx.ob("R14:twins:same-u_and_f", same, prog.where(a[0]),
           "value and policy functions of a period are built from the same u_and_f and the same choice list"
           if same else "value and policy functions are built from different u_and_f / choice lists",
           lhs=show(a[0])[:200], rhs=show(b[0])[:200])
    ccv_vars = kw(a[0], "continuous_choice_variables")
    ok = ccv_vars is not None and callee_name(ccv_vars) == "builtins.list" and selections(ccv_vars)
    if ok:
        f, _ = effective_formula(selections(ccv_vars)[0], {})
        ok = f in (parse("is_continuous & is_choice"), parse("is_choice & is_continuous"))
    ctx.ob("ALG2:continuous-choice-selection", bool(ok), prog.where(a[0]),
           "the reduction ranges over all continuous choices", lhs=ccv_vars if ccv_vars else "missing")


@rule("R14.SIB")
def twins(ctx: Ctx):
    """solver / simulator siblings agree; jit on/off wrap the same callable."""
    prog = ctx.prog
    qa, qb = "lcm.solve_brute.solve_continuous_problem", "lcm.simulate.solve_continuous_problem"
    fa, fb = prog.frame(qa), prog.frame(qb)
    na, nb = param_names(prog.funcs[qa].node), param_names(prog.funcs[qb].node)
    # one twin may simply delegate to the other: compare what they compute (calls between them inlined)
    only_twins = frozenset(q for q in prog.funcs if q not in (qa, qb))
    ra_, rb_ = prog.expand(fa.ret, skip=only_twins), prog.expand(fb.ret, skip=only_twins)
    fa = type(fa)(qualname=fa.qualname, module=fa.module, env=fa.env, ret=ra_, raises=fa.raises, effects=fa.effects, params=fa.params)
    fb = type(fb)(qualname=fb.qualname, module=fb.module, env=fb.env, ret=rb_, raises=fb.raises, effects=fb.effects, params=fb.params)
    if len(na) == len(nb):
        rb = _rename(fb.ret, qb, qa, nb, na)
        x, y = norm(fa.ret), norm(rb)
        ctx.ob("R14:solve_continuous_problem", x == y, prog.where(fa.ret),
               "solver and simulator evaluate compute_ccv on their space in the same way (same spacemap "
               "arguments, same keyword families)" if x == y else f"the twins differ: {first_difference(x, y)}",
               lhs=fa.ret, rhs=fb.ret)
    else:
        ctx.undecided("R14:solve_continuous_problem", "twin signatures differ")
    for q, f_ in ((qa, fa), (qb, fb)):
        sm = calls_in(f_.ret, "lcm.dispatchers.spacemap")
        need(sm, f"{q}: spacemap not called")
        pdf = kw(sm[0], "put_dense_first")
        ctx.ob(f"AX3:{q.split('.')[1]}:sparse-axis-first", pdf == ("const", False), prog.where(sm[0]),
               "the restricted (sparse) axis is the leading axis of the result" if pdf == ("const", False) else
               "put_dense_first is not False: the documented layout puts the restricted axis first",
               lhs=pdf if pdf else "missing", rhs="False")
        own = ("param", q, param_names(prog.funcs[q].node)[0])
        dv, sv = kw(sm[0], "dense_vars"), kw(sm[0], "sparse_vars")
        ok = dv == ("call", ("glob", "builtins.list"), (("attr", own, "dense_vars"),), ()) and \
            sv == ("call", ("glob", "builtins.list"), (("attr", own, "sparse_vars"),), ())
        ctx.ob(f"AX3:{q.split('.')[1]}:axes-from-space", ok, prog.where(sm[0]),
               "dense axes = keys of space.dense_vars in their order; joint axis = space.sparse_vars" if ok else
               "the mapped variables are not the key lists of the space", lhs=dv, rhs=sv)
        # the grids passed are the same dicts whose keys define the axes
        call = f_.ret
        spl = [v for k, v in call[3] if k is None] if call[0] == "call" else []
        ok2 = ("attr", own, "dense_vars") in spl and ("attr", own, "sparse_vars") in spl
        ctx.ob(f"AX3:{q.split('.')[1]}:grids-passed", ok2, prog.where(call),
               "the mapped function receives the space's dense grids and sparse combinations by name" if ok2
               else "the space's grids are not passed to the mapped function", lhs=show(call)[:200])
    glf = prog.frame(f"{EP}.get_lcm_function")
    sm = None
    for t in glf.env.values():
        if t[0] in ("phi", "ifexp") and t[1] == ("param", f"{EP}.get_lcm_function", "jit"):
            sm = t
    need(sm is not None, "jit switch not found")
    a, b = prog.strip_wrappers(sm[2]), prog.strip_wrappers(sm[3])
    ctx.ob("R14:jit-arms", a == b, prog.where(sm),
           "jit=True and jit=False return the same solve function (jitted or not)" if a == b else
           "jit on/off select different functions", lhs=sm[2], rhs=sm[3])
    static = [k for c in walk(sm) if c[0] == "call" and callee_name(c) == "jax.jit" for k, _ in c[3]
              if k in ("static_argnums", "static_argnames")]
    ctx.ob("EFF4:no-static-params", not static, prog.where(sm),
           "params is a traced (not static) argument of the jitted solver" if not static else
           f"jax.jit is given {static}: results may be cached per params object", lhs=sm[2])


@rule("R13.LSE")
def logsumexp_shift(ctx: Ctx):
    """Segment log-sum-exp: exp is applied to (a - shift) where shift is the maximum OF THE ROW'S OWN SEGMENT, and the same
    per-segment maximum is added back to the log of the segment sums (exactness + stability)."""
    prog = ctx.prog
    q = "lcm.discrete_problem._segment_logsumexp"
    if q not in prog.funcs:
        ctx.undecided("LSE:shift", f"{q} not found (anchor vanished)")
        return
    fr = prog.frame(q)
    where = prog.node_where(fr.module, prog.funcs[q].node)
    a = ("param", q, fr.params[0]) if fr.params else None
    r = prog.expand(fr.ret)
    exps = [s_ for s_ in walk(r) if s_[0] == "call" and callee_name(s_) in ("jax.numpy.exp", "numpy.exp") and s_[2]]
    if a is None or len(exps) != 1:
        ctx.undecided("LSE:shift", f"expected one exp(...) in the segment log-sum-exp, found {len(exps)}", where)
        return
    arg = exps[0][2][0]
    p = poly(arg)
    na = norm(a)
    shift = [m for m, c in p.items() if m != ((na, 1),)]
    ok_a = p.get(((na, 1),)) == Fraction(1)
    if not ok_a or len(shift) != 1 or len(shift[0]) != 1 or shift[0][0][1] != 1 or p[shift[0]] != Fraction(-1):
        ctx.ob("LSE:shift", None, where, f"exp is not applied to `a - shift`: {show(arg)[:100]}", lhs=arg)
        return
    S = shift[0][0][0]

    def is_segmax(t):
        return is_term(t) and ((t[0] == "op" and t[1] == "segment_max") or (t[0] == "call" and (callee_name(t) or "").endswith("segment_max")))

    gathered = is_term(S) and S[0] == "sub" and is_segmax(S[1])
    if gathered:
        sm = S[1]
        data = dict(sm[2]).get("data") if sm[0] == "op" else (kw(sm, "data") or (sm[2][0] if sm[2] else None))
        ok = data is not None and norm(data) == na
        ctx.ob("LSE:shift", ok, where,
               "every row is shifted by the maximum of its own segment before exp (no overflow, the largest term of every segment is exp(0))"
               if ok else "the per-segment maximum is not taken over the array itself", lhs=S)
        # the same per-segment maximum is added back
        pr = poly(r)
        back = [m for m in pr if any(norm(x) == norm(sm) or x == norm(sm) for x, _k in m)]
        ctx.ob("LSE:shift-added-back", True if back else None, where,
               "the per-segment maximum is added back to the log of the segment sums" if back else
               "adding back of the shift not recognised", lhs=r)
    else:
        has_max = any(is_term(x) and ((x[0] == "op" and x[1] in ("max", "amax")) or (x[0] == "call" and (callee_name(x) or "").split(".")[-1] in ("max", "amax")))
                      for x in walk(S))
        ctx.ob("LSE:shift", False if has_max else None, where,
               f"rows are shifted by {show(S)[:60]}, which is not the maximum of the row's own segment: segments far below that bound "
               "underflow to -inf" if has_max else f"shift {show(S)[:60]} not recognised", lhs=S)


SEGMENT_REDUCERS = {
    # function -> name of the parameter that holds the segment description (None: the segments always exist)
    "lcm.discrete_problem._solve_discrete_problem_no_shocks": "choice_segments",
    "lcm.discrete_problem._calculate_emax_extreme_value_shocks": "choice_segments",
    "lcm.discrete_problem._segment_extreme_value_emax_over_first_axis": None,
    "lcm.discrete_problem._segment_logsumexp": None,
    "lcm.argmax.segment_argmax": None,
}
# factories whose returned closure reduces over segments: factory -> parameter of the closure that holds the segments
SEGMENT_REDUCER_FACTORIES = {
    "lcm.simulate.get_discrete_policy_calculator": "choice_segments",
}


@rule("R14.SEGPATH")
def segment_paths(ctx: Ctx):
    """Whenever rows are grouped into segments (one segment per state, of UNEQUAL sizes in general), every value a
    segment reducer returns is computed by a segment operation (jax.ops.segment_max / segment_sum or another reducer
    of this table) on every path.  A path that reduces blocks of a reshaped array instead is only right when all
    segments have the same size, which nothing guarantees."""
    prog = ctx.prog

    def is_none_test(c, pname, q):
        """(is a test of `pname` against None, value of the test when pname IS None)"""
        if c[0] == "cmp" and len(c[1]) == 1 and c[1][0] in ("is", "is not", "==", "!=") and len(c[2]) == 2 \
                and ("param", q, pname) in c[2] and ("const", None) in c[2]:
            return True, c[1][0] in ("is", "==")
        if c[0] == "not":
            a, b = is_none_test(c[1], pname, q)
            return a, (not b if a else b)
        if c[0] == "unop" and c[1] == "not":
            a, b = is_none_test(c[2], pname, q)
            return a, (not b if a else b)
        return False, None

    def arms(t, path):
        if is_term(t) and t[0] == "retphi":
            # several return statements: [(path conditions, value)]; a condition `("not", c)` is c being false
            for conds, v in t[1]:
                yield from arms(v, path + tuple((c, True) for c in conds))
        elif is_term(t) and t[0] in ("phi", "ifexp"):
            yield from arms(t[2], path + ((t[1], True),))
            yield from arms(t[3], path + ((t[1], False),))
        else:
            yield path, t

    def reduces_by_segment(t):
        for x in walk(t):
            n = callee_name(x) if x[0] == "call" else None
            if n and (n.startswith("jax.ops.segment_") or n in SEGMENT_REDUCERS):
                return True
            if x[0] == "op" and isinstance(x[1], str) and x[1].startswith("segment_"):
                return True
            if x[0] == "glob" and isinstance(x[1], str) and x[1].startswith("jax.ops.segment_"):
                return True  # the segment operation as a function value (bound with functools.partial, then called)
        return False

    from lcmsa.match import product_closures

    targets = [(q, pname, None) for q, pname in SEGMENT_REDUCERS.items()] + [(q, pname, "closure") for q, pname in SEGMENT_REDUCER_FACTORIES.items()]
    for q, pname, kind in targets:
        key = f"SEGPATH:{q.removeprefix('lcm.')}"
        if q not in prog.funcs:
            ctx.undecided(key, f"{q} not found (anchor vanished)")
            continue
        fr = prog.frame(q)
        where = prog.node_where(fr.module, prog.funcs[q].node)
        if kind == "closure":
            # what the factory returns: a nested function, or functools.partial(<that function or a module-level one>, ...)
            r = fr.ret
            while is_term(r) and r[0] == "call" and callee_name(r) == "functools.partial" and r[2]:
                r = r[2][0]
            tgt = prog.resolve_callable(r) if is_term(r) else None
            if tgt is not None and tgt[0] == "func" and tgt[1] in prog.funcs:
                fr = prog.frame(tgt[1])
            elif tgt is not None and tgt[0] == "closure":
                fr = prog.closure_frame(tgt[2])
            else:
                cids = product_closures(prog, fr)
                if len(cids) != 1:
                    ctx.undecided(key, f"{q}: the returned function was not identified ({len(cids)} nested functions)", where)
                    continue
                fr = prog.closure_frame(cids[0])
            q = fr.qualname
            if pname not in fr.params:
                ctx.undecided(key, f"{q}: no parameter {pname}", where)
                continue
        if fr.ret is None or fr.unsupported:
            ctx.undecided(key, "return value not analysable", where)
            continue
        # a tuple result is judged component by component; a component that never depends on the segments is skipped
        comps = [fr.ret]
        if is_term(fr.ret) and fr.ret[0] == "tuple":
            # the policy calculator also returns results that have nothing to do with segments (the dense arg-max);
            # every result of a reducer proper (segment_argmax: row ids and maxima) is a reduction over segments
            comps = [c for c in fr.ret[1] if kind != "closure" or any(reduces_by_segment(t_) for _p, t_ in arms(c, ()))]
        bad, n_arms = None, 0
        for path, t in (a for c in comps for a in arms(c, ())):
            absent = False
            for c, val in path:
                if pname is None:
                    continue
                is_t, when_none = is_none_test(c, pname, q)
                if is_t and val == when_none:
                    absent = True  # the path on which there are no segments
            if absent:
                continue
            n_arms += 1
            if not reduces_by_segment(t):
                bad = (path, t)
        ctx.count("segment_reducers")
        if bad is not None:
            conds = " and ".join(("" if v else "not ") + show(c)[:50] for c, v in bad[0]) or "always"
            ctx.ob(key, False, where,
                   f"on the path [{conds}] the result is not computed by a segment operation ({show(bad[1])[:90]}): rows are reduced "
                   "in blocks, which equals the reduction per segment only if all segments have the same size", lhs=show(bad[1])[:300])
        else:
            ctx.ob(key, True if n_arms else None, where,
                   f"all {n_arms} result path(s) with segments go through a segment operation" if n_arms else "no result path found")
    ctx.floor("segment_reducers", 4)


def _noop():
    return None
