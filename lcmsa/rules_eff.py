"""R8 EFF -- effects, aliasing, captured state; R7 ORD -- order-provenance taint."""

from __future__ import annotations

import ast

from lcmsa.core import AnalysisError, callee_name, is_term, kw, show, walk
from lcmsa.match import all_frames, calls_in, frame_terms, loop_terms, need
from lcmsa.report import Ctx, rule

FRESH_CTORS = {
    "builtins.dict", "builtins.list", "builtins.set", "builtins.tuple", "copy.deepcopy", "copy.copy",
    "pandas.DataFrame", "builtins.sorted",
}
ALIASING_CALLS = {"typing.cast"}
CACHE_DECOS = {"functools.lru_cache", "functools.cache", "functools.cached_property"}
LOG_METHODS = {"info", "debug", "warning", "error", "setLevel", "basicConfig"}


def lcm_frames(prog):
    return {n: f for n, f in all_frames(prog).items() if not n.startswith(("lcmref", "lcmfix"))}


def root_of(prog, t, depth=0, _seen=None):
    """Classify where the object denoted by ``t`` comes from.

    Returns a list of (kind, term): kind in fresh / param / global / free-unknown / unknown.
    """
    if depth > 40 or not is_term(t):
        return [("unknown", t)]
    seen = _seen if _seen is not None else set()
    tag = t[0]
    if tag in ("list", "dict", "set", "tuple", "comp", "const", "fstr", "lambda", "binop", "closure"):
        return [("fresh", t)]
    if tag == "param":
        return [("param", t)]
    if tag in ("glob", "func", "class", "modvar"):
        return [("global", t)]
    if tag in ("mut", "setitem", "setattr"):
        return root_of(prog, t[1], depth + 1, seen)
    if tag in ("sub", "attr"):
        # an element / attribute of a container: shares with the container
        r = root_of(prog, t[1], depth + 1, seen)
        return [(k if k != "fresh" else "fresh", x) for k, x in r]
    if tag in ("phi", "ifexp"):
        return root_of(prog, t[2], depth + 1, seen) + root_of(prog, t[3], depth + 1, seen)
    if tag in ("carried", "loopout"):
        lp = prog.loops.get(t[1])
        if lp is None:
            return [("unknown", t)]
        if (t[1], t[2]) in seen:
            return []
        seen.add((t[1], t[2]))
        out = []
        init = lp.init.get(t[2])
        if init is not None and init != ("undef",):
            out += root_of(prog, init, depth + 1, seen)
        nxt = lp.next.get(t[2])
        if nxt is not None:
            out += root_of(prog, nxt, depth + 1, seen)
        return out
    if tag == "loopvar":
        lp = prog.loops.get(t[1])
        return root_of(prog, lp.iter, depth + 1, seen) if lp else [("unknown", t)]
    if tag == "call":
        name = callee_name(t)
        if name in ALIASING_CALLS:
            return root_of(prog, t[2][-1], depth + 1, seen) if t[2] else [("unknown", t)]
        if name in FRESH_CTORS or (name and not name.startswith("lcm.")):
            # library calls return new objects (vmap, jnp.*, np.*, deepcopy, signature, ...)
            return [("fresh", t)]
        f = t[1]
        if f[0] == "attr":
            if f[2] in ("items", "values", "keys", "get", "pop", "setdefault"):
                return root_of(prog, f[1], depth + 1, seen)
            return [("fresh", t)]  # method results (query, tolist, copy, ...) are new objects
        tgt = prog.resolve_callable(f)
        if tgt is not None:
            r = prog.inline(("call", tgt, t[2], t[3]))
            if r is not None and r[0] != "unknown":
                return root_of(prog, r, depth + 1, seen)
            # an lcm function may return (part of) an argument: require fresh arguments
            out = []
            for a in list(t[2]) + [v for _k, v in t[3]]:
                out += [r for r in root_of(prog, a[1] if a[0] == "star" else a, depth + 1, seen) if r[0] != "fresh"]
            return out or [("fresh", t)]
        return [("fresh", t)]
    if tag in ("bv",):
        return [("unknown", t)]
    if tag == "undef":
        return []
    return [("unknown", t)]


def _base_name(node):
    """Name at the root of the receiver of a store statement."""
    tgt = None
    if isinstance(node, ast.Assign):
        tgt = node.targets[0]
    elif isinstance(node, (ast.AugAssign, ast.AnnAssign)):
        tgt = node.target
    elif isinstance(node, ast.Expr) and isinstance(node.value, ast.Call) and isinstance(node.value.func, ast.Attribute):
        tgt = node.value.func.value
    elif isinstance(node, ast.Delete):
        tgt = node.targets[0]
    if isinstance(tgt, (ast.Tuple, ast.List)):
        return None
    while isinstance(tgt, (ast.Subscript, ast.Attribute)):
        tgt = tgt.value
    return tgt.id if isinstance(tgt, ast.Name) else None


def _private_helper(prog, q):
    info = prog.funcs.get(q)
    return info is not None and info.parent is None and info.cls is None and info.node.name.startswith("_") \
        and not info.node.name.startswith("__")


def _call_sites(prog, q, pname):
    """[(where, verdict, why)] for every call of helper ``q`` in lcm: is the object passed as ``pname`` fresh
    (created in the caller: True), the caller's own argument / a global (False), or unclassified (None)?"""
    info = prog.funcs[q]
    a = info.node.args
    names = [x.arg for x in a.posonlyargs + a.args]
    pos = names.index(pname) if pname in names else None
    simple = info.node.name
    out = []
    for cq, cinfo in sorted(prog.funcs.items()):
        if cinfo.module.startswith(("lcmref", "lcmfix")) or cq == q:
            continue
        m = prog.modules[cinfo.module]
        local_names = {simple} if cinfo.module == info.module else {loc for loc, tgt in m.imports.items() if tgt == q}
        if not local_names:
            continue
        own = [n for n in ast.walk(cinfo.node)]
        nested = {id(x) for d in own if isinstance(d, (ast.FunctionDef, ast.Lambda)) and d is not cinfo.node for x in ast.walk(d)}
        for n in own:
            if id(n) in nested or not (isinstance(n, ast.Call) and isinstance(n.func, ast.Name) and n.func.id in local_names):
                continue
            arg = None
            if pos is not None and pos < len(n.args) and not any(isinstance(x, ast.Starred) for x in n.args[:pos + 1]):
                arg = n.args[pos]
            for k in n.keywords:
                if k.arg == pname:
                    arg = k.value
            where = prog.node_where(cinfo.module, n)
            if arg is None:
                out.append((where, None, "argument not found"))
                continue
            fr = prog.frame(cq) if cinfo.parent is None else None
            verdict, why = _classify_expr(prog, cq, cinfo, fr, arg, 0)
            out.append((where, verdict, why))
    return out


def _classify_expr(prog, cq, cinfo, fr, arg, depth):
    """(True: created in the caller | False: the caller's argument / a global | None: unknown, reason)."""
    if isinstance(arg, (ast.List, ast.Dict, ast.Set, ast.ListComp, ast.DictComp, ast.SetComp, ast.Tuple)):
        return True, "fresh object"
    if isinstance(arg, ast.Name):
        if fr is None:
            return None, "call inside a nested function"
        if arg.id in fr.params and not _rebound(cinfo.node, arg.id):
            return False, f"{cq} passes its own argument '{arg.id}' to it: the caller's object is modified"
        if arg.id in fr.locals or arg.id in fr.params:
            roots = root_of(prog, fr.env.get(arg.id, ("unknown", arg.id)))
            nonfresh = [(k, x) for k, x in roots if k in ("param", "global")]
            unknown = [(k, x) for k, x in roots if k not in ("param", "global", "fresh")]
            if nonfresh:
                return False, f"{cq} passes '{arg.id}', which aliases {show(nonfresh[0][1])[:50]}"
            return (None if unknown else True), "local object"
        return False, f"{cq} passes the non-local '{arg.id}' to it"
    if isinstance(arg, ast.Call) and depth < 4:
        f = arg.func
        name = f.id if isinstance(f, ast.Name) else None
        if name is None:
            return True, "result of a method / library call"
        m = prog.modules[cinfo.module]
        target = m.imports.get(name, f"{cinfo.module}.{name}")
        tinfo = prog.funcs.get(target)
        if tinfo is None or tinfo.parent is not None:
            return True, "result of a library call"
        ret = prog.frame(target).ret
        if ret is None:
            return None, f"{target} returns nothing"
        worst = True
        ta = tinfo.node.args
        pnames = [x.arg for x in ta.posonlyargs + ta.args]
        for k, x in root_of(prog, ret):
            if k == "fresh":
                continue
            if k == "param" and x[1] == target and x[2] in pnames:
                i = pnames.index(x[2])
                sub = arg.args[i] if i < len(arg.args) else next((kw_.value for kw_ in arg.keywords if kw_.arg == x[2]), None)
                if sub is None:
                    return None, f"argument {x[2]} of {target} not found"
                v, why = _classify_expr(prog, cq, cinfo, fr, sub, depth + 1)
                if v is False:
                    return False, why
                if v is None:
                    worst = None
            elif k == "global":
                return False, f"{target} returns the global {show(x)[:40]}"
            else:
                worst = None
        return worst, f"result of {target}"
    return None, "argument expression not classified"


def _rebound(fnode, name):
    return {name} if any(isinstance(n, ast.Name) and n.id == name and isinstance(n.ctx, ast.Store) for n in ast.walk(fnode)) else set()


FIX = "lcmfix.controls"


def ensure_fixture(prog):
    from pathlib import Path

    if FIX not in prog.modules:
        prog.load_extra(FIX, Path(__file__).resolve().parent.parent / "fixtures" / "positive_controls.py")


def fixture_frames(prog):
    ensure_fixture(prog)
    return {n: f for n, f in all_frames(prog, include_extra=True).items() if n.startswith(FIX)}


def scan_stores(prog, frames):
    """Return [(key, where, detail, lhs)] for every store that is not on a fresh local."""
    out = []
    n = 0
    for name, fr in sorted(frames.items()):
        q = name.split("@")[0]
        short = q.removeprefix("lcm.")
        for st in fr.stores:
            kind, recv, node = st[0], st[1], st[2]
            where = prog.node_where(fr.module, node)
            n += 1
            if kind == "global-decl":
                out.append((f"EFF1:global:{short}", where, f"'global/nonlocal {', '.join(recv)}' in {q}: shared mutable state", str(recv)))
                continue
            if kind == "global-store":
                continue
            base = _base_name(node)
            meth = st[4] if len(st) > 4 else ""
            if kind == "mutcall" and is_term(recv) and meth in LOG_METHODS:
                continue
            if base is None:
                continue
            if base not in fr.locals:
                out.append((f"EFF1:nonlocal-store:{short}:{base}", where,
                            f"{q} mutates '{base}', which is not local to it (captured or module state): "
                            "results would depend on the call history", show(recv)[:120] if is_term(recv) else str(recv)))
                continue
            if base in fr.params:
                allowed = base == "self" and q.rsplit(".", 1)[-1] in ("__init__", "__post_init__")
                if not allowed and _private_helper(prog, q):
                    # a private helper that works in place on its argument: decided at its call sites
                    sites = _call_sites(prog, q, base)
                    bad_sites = [(w, why) for w, verdict, why in sites if verdict is False]
                    if sites and not bad_sites and all(v is True for _w, v, _y in sites):
                        continue
                    if bad_sites:
                        out.append((f"EFF2:param-mutated:{short}:{base}", bad_sites[0][0],
                                    f"{q} mutates its argument '{base}' and {bad_sites[0][1]}", show(recv)[:120]))
                        continue
                    out.append((f"EFF2:param-mutated:{short}:{base}:undecided", where,
                                f"{q} mutates its argument '{base}'; not every call site could be classified", None))
                    continue
                if not allowed:
                    out.append((f"EFF2:param-mutated:{short}:{base}", where,
                                f"{q} mutates its argument '{base}' ({kind}{' .' + meth if meth else ''}): "
                                "the caller's object is modified", show(recv)[:120]))
                continue
            roots = root_of(prog, recv)
            nonfresh = [(k, x) for k, x in roots if k in ("param", "global")]
            if nonfresh:
                k, x = nonfresh[0]
                out.append((f"EFF2:alias-mutated:{short}:{base}", where,
                            f"{q} mutates '{base}', which aliases {'the argument ' if k == 'param' else 'the global '}"
                            f"{show(x)[:60]} (no copy in between)", show(recv)[:160]))
    return out, n


@rule("R8.EFF")
def effects(ctx: Ctx):  # noqa: C901, PLR0912
    prog = ctx.prog
    frames = lcm_frames(prog)
    found, n = scan_stores(prog, frames)
    ctx.count("stores", n)
    bad_total = len([k for k, *_ in found if not k.endswith(":undecided")])
    n_undecided = len(found) - bad_total
    for key, where, detail, lhs in found:
        ctx.ob(key, None if key.endswith(":undecided") else False, where, detail, lhs=lhs)
    # positive control: the same scan must flag the fixture
    ctl, _n = scan_stores(prog, fixture_frames(prog))
    kinds = {k.split(":")[1] for k, *_ in ctl}
    if not {"param-mutated", "alias-mutated", "nonlocal-store"} <= kinds:
        ctx.undecided("EFF:positive-control", f"the store scan no longer flags the fixture violations (flagged: {sorted(kinds)})")
    ctx.count("positive_controls_flagged", len(ctl))
    ctx.ob("EFF1:all-stores-on-fresh-locals", (None if n_undecided else True) if bad_total == 0 else False, "",
           f"all {ctx.counts.get('stores', 0)} subscript/attribute stores and mutating calls in lcm act on objects that are "
           "local to the function and freshly created in it (or self in a constructor)" if bad_total == 0 else
           f"{bad_total} stores act on arguments, aliases of arguments, captured or global objects")
    ctx.floor("stores", 40)
    # ---- caching decorators
    cached = []
    ctl_cached = []
    for m in prog.modules.values():
        if m.name.startswith("lcmref"):
            continue
        for node in ast.walk(m.tree):
            if isinstance(node, (ast.FunctionDef, ast.AsyncFunctionDef)):
                for d in node.decorator_list:
                    txt = ast.unparse(d)
                    if any(c.split(".")[-1] in txt for c in CACHE_DECOS):
                        (ctl_cached if m.name.startswith("lcmfix") else cached).append(f"{m.name}.{node.name}: @{txt}")
    if not ctl_cached:
        ctx.undecided("EFF:positive-control:memoisation", "the memoisation scan no longer flags the fixture")
    for name, fr in frames.items():
        for t in frame_terms(fr):
            for s in walk(t):
                if s[0] == "call" and callee_name(s) in CACHE_DECOS:
                    cached.append(f"{name}: {show(s)[:60]}")
                if s[0] == "glob" and s[1] in CACHE_DECOS:
                    cached.append(f"{name}: {s[1]}")
    ctx.ob("EFF1:no-memoisation", not cached, "", "no function in lcm is memoised (lru_cache/cache)" if not cached else
           f"memoised functions: {sorted(set(cached))}", lhs=str(sorted(set(cached)))[:300])
    # ---- module-level mutable state that functions read and someone mutates
    # (covered by nonlocal-store above); module-level containers are listed for the record
    # ---- EFF3: the params template is never read at run time
    hits = []
    for name, fr in frames.items():
        q = name.split("@")[0]
        for t in frame_terms(fr) + loop_terms(prog, fr):
            for s in walk(t):
                if s[0] == "attr" and s[2] == "params" and s[1][0] != "glob":
                    hits.append((q, s))
    allowed = []
    viol = []
    glf = "lcm.entry_point.get_lcm_function"
    glf_ret = prog.frame(glf).ret
    for q, s in hits:
        if q == glf and _only_in_returned_template(glf_ret, s, prog.frame(glf)):
            allowed.append(s)
        else:
            viol.append((q, s))
    ctx.ob("EFF3:template-not-read-at-run-time", not viol, prog.where(viol[0][1]) if viol else "",
           "the params template (InternalModel.params) is only handed out by get_lcm_function; no generated function "
           "reads it" if not viol else
           f"{viol[0][0]} reads {show(viol[0][1])}: results depend on the template object instead of the params argument",
           lhs=str([f"{q}: {show(s)}" for q, s in viol])[:300])
    # closures must not capture the template
    cap = []
    for cid, (info, snapshot, _c) in prog.closures.items():
        if info.module.startswith(("lcmref", "lcmfix")):
            continue
        from lcmsa.rules_kernel import _free_names

        for n in _free_names(info.node):
            v = snapshot.get(n)
            if v is None:
                continue
            if v[0] == "param" and v[2] == "params" and "process_model" in v[1]:
                cap.append(f"{info.qualname} captures {n}")
            if callee_name(v) == "lcm.input_processing.create_params_template.create_params_template":
                cap.append(f"{info.qualname} captures {n}")
    ctx.ob("EFF3:closures-do-not-capture-template", not cap, "",
           "no generated closure captures the params template" if not cap else f"{cap}", lhs=str(cap))
    # ---- user functions are deep-copied before wrapping
    gif = "lcm.input_processing.process_model._get_internal_functions"
    fr = prog.frame(gif)
    dc = [s for t in frame_terms(fr) + loop_terms(prog, fr) for s in walk(t)
          if callee_name(s) == "copy.deepcopy" and s[2] == (("attr", ("param", gif, "model"), "functions"),)]
    loops = [lp for lid, lp in prog.loops.items() if lp.func == gif and "@" not in lid]
    ok = None  # None: the loop that wraps the functions was not recognised -> no verdict
    src = None
    for lp in loops:
        it = lp.iter
        if it[0] == "call" and it[1][0] == "attr" and it[1][2] == "items":
            roots = root_of(prog, it[1][1])
            if lp.next and any(x[0] == "setitem" for v in lp.next.values() for x in walk(v)):
                src = it[1][1]
                ok = bool(dc) and all(k == "fresh" and callee_name(x) == "copy.deepcopy" for k, x in roots)
    ctx.ob("EFF2:user-functions-deep-copied", ok, prog.where(dc[0]) if dc else prog.node_where(fr.module, prog.funcs[gif].node),
           "the internal functions are built from deepcopy(model.functions): later edits of the user's callables "
           "cannot reach the generated functions" if ok else
           "the internal functions wrap the user's own callable objects (no deepcopy): results depend on later "
           "modifications of those objects" if ok is False else
           "the loop that wraps the user functions was not recognised", lhs=show(src)[:200] if src else "missing")
    # raw user functions are not used elsewhere at run time
    direct = []
    for name, fr2 in frames.items():
        q = name.split("@")[0]
        if q.startswith(("lcm.input_processing.", "lcm.user_model.")):
            continue
        for t in frame_terms(fr2) + loop_terms(prog, fr2):
            for s in walk(t):
                if s[0] == "attr" and s[2] == "functions" and s[1][0] == "param" and _is_user_model(prog, s[1]):
                    direct.append(q)
    ctx.ob("EFF2:raw-user-functions-not-used", not direct, "", "only processed (copied) functions are used outside input processing"
           if not direct else f"raw model.functions used in {sorted(set(direct))}", lhs=str(sorted(set(direct))))


def _is_user_model(prog, p):
    info = prog.funcs.get(p[1])
    if info is None:
        return False
    for a in info.node.args.args + info.node.args.kwonlyargs:
        if a.arg == p[2] and a.annotation is not None:
            return ast.unparse(a.annotation) == "Model"
    return False


def _only_in_returned_template(ret, s, fr):
    """The .params access is the second element of the returned (function, template) pair."""
    r = ret
    if r[0] == "tuple" and len(r[1]) == 2 and r[1][1] == s:
        # and it occurs nowhere inside the returned function
        return s not in set(walk(r[1][0]))
    return False


# ======================================================================================
# R7 ORD
# ======================================================================================

SET_METHODS = {"union", "intersection", "difference", "symmetric_difference", "copy"}
ORDER_FREE_CONSUMERS = {
    "builtins.set", "builtins.frozenset", "builtins.sorted", "builtins.len", "builtins.any", "builtins.all",
    "builtins.bool", "builtins.sum", "builtins.max", "builtins.min",
}
ORDER_SINK_KW = {"variables", "dense_vars", "product_axes", "axis_names"}
JOINT_MAP = {"lcm.dispatchers.vmap_1d"}  # variables= is order-insensitive (one joint vmap)


class Taint:
    def __init__(self, prog):
        self.p = prog
        self.memo = {}

    def is_set(self, t, depth=0):
        """Term denotes a set (iteration order = hash order)."""
        if not is_term(t) or depth > 30:
            return False
        tag = t[0]
        if tag == "set" or (tag == "comp" and t[1] == "set"):
            return True
        if tag == "call":
            name = callee_name(t)
            if name in ("builtins.set", "builtins.frozenset"):
                return True
            if name == "dags.get_ancestors":
                return True
            f = t[1]
            if f[0] == "attr" and f[2] in SET_METHODS and self.is_set(f[1], depth + 1):
                return True
            if f[0] == "func":
                info = self.p.funcs.get(f[1])
                if info is not None and info.node.returns is not None and ast.unparse(info.node.returns).startswith("set"):
                    return True
                r = self.p.inline(t)
                if r is not None:
                    return self.is_set(r, depth + 1)
        if tag == "binop" and t[1] in ("|", "&", "-", "^"):
            return self.is_set(t[2], depth + 1) or self.is_set(t[3], depth + 1)
        if tag in ("phi", "ifexp"):
            return self.is_set(t[2], depth + 1) or self.is_set(t[3], depth + 1)
        if tag == "mut" and t[2] in ("update", "add", "discard", "difference_update", "intersection_update"):
            return self.is_set(t[1], depth + 1)
        if tag in ("carried", "loopout"):
            lp = self.p.loops.get(t[1])
            if lp:
                i = lp.init.get(t[2])
                return i is not None and self.is_set(i, depth + 1)
        return False

    def kind(self, t, depth=0):
        """Taint of an *ordered* sequence/dict term: None, 'hash' or 'alpha'."""
        if not is_term(t) or depth > 30:
            return None
        if t in self.memo:
            return self.memo[t]
        self.memo[t] = None
        r = self._kind(t, depth)
        self.memo[t] = r
        return r

    def _kind(self, t, depth):  # noqa: C901, PLR0911, PLR0912
        tag = t[0]
        d = depth + 1
        if tag == "call":
            name = callee_name(t)
            if name == "builtins.sorted":
                return "alpha"
            if name in ("builtins.list", "builtins.tuple", "builtins.reversed", "builtins.enumerate", "builtins.iter") and t[2]:
                a = t[2][0]
                return "hash" if self.is_set(a) else self.kind(a, d)
            if name == "builtins.dict" and t[2]:
                return self.kind(t[2][0], d)
            if name == "builtins.zip":
                for a in t[2]:
                    k = "hash" if self.is_set(a) else self.kind(a, d)
                    if k:
                        return k
                return None
            f = t[1]
            if f[0] == "attr" and f[2] in ("keys", "values", "items", "tolist", "copy") and not t[2]:
                return "hash" if self.is_set(f[1]) else self.kind(f[1], d)
            # parameters of a signature: the callable's own order; dags functions are alphabetical
            if f[0] == "attr" and f[2] == "keys":
                return self.kind(f[1], d)
            if name == "inspect.signature":
                g = t[2][0] if t[2] else None
                if g is not None and any(callee_name(s) == "dags.concatenate_functions" for s in walk(g)):
                    return "alpha"
                return None
            tgt = f if f[0] in ("func",) else None
            if tgt is not None:
                r = self.p.inline(t)
                if r is not None and r[0] != "unknown":
                    return "hash" if self.is_set(r) else self.kind(r, d)
            return None
        if tag == "attr":
            if t[2] in ("parameters", "index"):
                return self.kind(t[1], d)
            return None
        if tag == "comp" and t[1] in ("list", "gen", "dict"):
            for _tg, it, _c in t[3]:
                k = "hash" if self.is_set(it) else self.kind(it, d)
                if k:
                    return k
            return None
        if tag in ("list", "tuple"):
            for x in t[1]:
                if x[0] == "star":
                    k = "hash" if self.is_set(x[1]) else self.kind(x[1], d)
                    if k:
                        return k
            return None
        if tag == "binop" and t[1] == "+":
            return self.kind(t[2], d) or self.kind(t[3], d)
        if tag in ("phi", "ifexp"):
            return self.kind(t[2], d) or self.kind(t[3], d)
        if tag == "sub" and t[2][0] == "slice":
            return self.kind(t[1], d)
        if tag in ("carried", "loopout"):
            lp = self.p.loops.get(t[1])
            if lp:
                k = None
                i, n = lp.init.get(t[2]), lp.next.get(t[2])
                if i is not None:
                    k = self.kind(i, d)
                if not k and n is not None and n[0] == "mut" and n[2] in ("append", "extend"):
                    # order of appends follows the loop's iterable
                    k = "hash" if self.is_set(lp.iter) else self.kind(lp.iter, d)
                return k
        if tag == "mut" and t[2] in ("append", "extend", "insert"):
            k = self.kind(t[1], d)
            if not k and t[2] == "extend" and t[3]:
                k = "hash" if self.is_set(t[3][0]) else self.kind(t[3][0], d)
            return k
        return None


@rule("R7.ORD")
def order_taint(ctx: Ctx):  # noqa: C901, PLR0912
    prog = ctx.prog
    taint = Taint(prog)
    frames = lcm_frames(prog)
    findings = []
    escapes = []
    n_sinks = 0

    def check(q, role, arg, call, *, allow_alpha=False):
        nonlocal n_sinks
        n_sinks += 1
        k = "hash" if taint.is_set(arg) else taint.kind(arg)
        if k == "hash" or (k == "alpha" and not allow_alpha):
            findings.append((q, role, k, arg, call))

    for name, fr in sorted(frames.items()):
        q = name.split("@")[0]
        seen = set()
        for t in frame_terms(fr) + loop_terms(prog, fr):
            for s in walk(t):
                if s in seen or s[0] != "call":
                    continue
                seen.add(s)
                cn = callee_name(s)
                # 1. order-sensitive keyword arguments of dispatchers / space descriptors
                for k_, v in s[3]:
                    if k_ in ORDER_SINK_KW:
                        if cn in JOINT_MAP and k_ == "variables":
                            continue
                        if cn == "lcm.dispatchers.spacemap" and k_ == "sparse_vars":
                            continue
                        check(q, f"{(cn or 'call').split('.')[-1]}({k_}=)", v, s)
                if cn in ("lcm.dispatchers.productmap", "lcm.dispatchers._base_productmap") and len(s[2]) > 1:
                    check(q, f"{cn.split('.')[-1]}(variables)", s[2][1], s)
                # 2. signatures built from a list
                if cn == "dags.signature.with_signature":
                    a = kw(s, "args")
                    if a is not None:
                        k = "hash" if taint.is_set(a) else taint.kind(a)
                        n_sinks += 1
                        if k == "hash":
                            escapes.append((q, a, s))
                # 3. positional meaning: all_as_args(arg_names=tainted), zip/enumerate feeding arrays, array construction
                if cn == "lcm.functools.all_as_args":
                    a = kw(s, "arg_names") or (s[2][2] if len(s[2]) > 2 else None)
                    if a is not None:
                        k = "hash" if taint.is_set(a) else taint.kind(a)
                        n_sinks += 1
                        if k == "hash":
                            # positional interpretation of a hash-ordered name list
                            findings.append((q, "all_as_args(arg_names=)", k, a, s))
                if cn in ("jax.numpy.array", "jax.numpy.stack", "jax.numpy.concatenate", "numpy.array") and s[2]:
                    a = s[2][0]
                    k = "hash" if taint.is_set(a) else taint.kind(a)
                    n_sinks += 1
                    if k == "hash":
                        findings.append((q, f"{cn.split('.')[-1]}(...)", k, a, s))
    # integer subscripts of hash-ordered sequences
    for name, fr in sorted(frames.items()):
        q = name.split("@")[0]
        for t in frame_terms(fr) + loop_terms(prog, fr):
            for s in walk(t):
                if s[0] == "sub" and s[2][0] == "const" and isinstance(s[2][1], int) and not isinstance(s[2][1], bool):
                    k = "hash" if taint.is_set(s[1]) else taint.kind(s[1])
                    if k == "hash":
                        findings.append((q, "positional subscript", k, s[1], s))
    # the canonical order must not be sorted / hash ordered
    gvi = prog.frame("lcm.input_processing.util.get_variable_info")
    order = None
    for s_ in walk(gvi.ret):
        if s_[0] == "sub" and s_[1][0] == "attr" and s_[1][2] == "loc":
            order = s_[2]
            break
    if order is not None:
        k = taint.kind(order)
        n_sinks += 1
        if k:
            findings.append(("lcm.input_processing.util.get_variable_info", "canonical order", k, order, order))
    for fn in ("get_grids", "get_gridspecs"):
        r = prog.frame(f"lcm.input_processing.util.{fn}").ret
        k = taint.kind(r)
        n_sinks += 1
        if k:
            findings.append((f"lcm.input_processing.util.{fn}", "key order of the grids", k, r, r))
    # values of the built-in hash(): salted per interpreter process for str / bytes, so nothing computed from them is
    # reproducible across runs (expected count in lcm: zero; positive control in the fixture)
    hashed = []
    for name, fr in sorted(frames.items()):
        for t in frame_terms(fr) + loop_terms(prog, fr):
            for s in walk(t):
                if s[0] == "call" and callee_name(s) == "builtins.hash":
                    hashed.append((name.split("@")[0], s))
    hctl = [s for _n, fr in fixture_frames(prog).items() for t in frame_terms(fr) for s in walk(t)
            if s[0] == "call" and callee_name(s) == "builtins.hash"]
    if not hctl:
        ctx.undecided("ORD:positive-control:hash", "the scan no longer flags the fixture's use of hash()")
    ctx.count("positive_controls_flagged", len(hctl))
    hseen = set()
    for q, s in hashed:
        if q in hseen:
            continue
        hseen.add(q)
        ctx.ob(f"ORD:{q.removeprefix('lcm.')}:hash()", False, prog.where(s),
               f"{q} computes with hash(...): for strings the value differs from one interpreter process to the next "
               "(PYTHONHASHSEED), so results derived from it are not reproducible for a fixed seed", lhs=show(s)[:120])
    ctx.count("order_sinks", n_sinks)
    # positive control: the fixture's two tainted productmap calls must be seen
    ctl = []
    for name, fr in fixture_frames(prog).items():
        for t in frame_terms(fr):
            for s in walk(t):
                if s[0] == "call" and callee_name(s) == "lcm.dispatchers.productmap":
                    v = kw(s, "variables")
                    k = "hash" if taint.is_set(v) else taint.kind(v)
                    if k:
                        ctl.append(k)
    if sorted(ctl) != ["alpha", "hash"]:
        ctx.undecided("ORD:positive-control", f"the order taint no longer flags the fixture (got {ctl})")
    ctx.count("positive_controls_flagged", len(ctl))
    seen_keys = set()
    for q, role, k, arg, call in findings:
        key = f"ORD:{q.removeprefix('lcm.')}:{role}:{k}"
        if key in seen_keys:
            continue
        seen_keys.add(key)
        why = ("iteration order of a set (depends on PYTHONHASHSEED)" if k == "hash" else
               "alphabetical order (depends on the variables' names, not on their class/declaration order)")
        ctx.ob(key, False, prog.where(call), f"{role} in {q} receives a sequence whose order is the {why}",
               lhs=show(arg)[:200])
    if not findings:
        ctx.ob("ORD:no-tainted-order-reaches-a-sink", True, "",
               f"none of the {n_sinks} order-sensitive sinks (mapped-variable lists, axis names, positional argument "
               "lists, array constructions, canonical order, grid key order) receives a hash-ordered or alphabetical sequence")
    # the one legitimate escape: with_signature(args=L) paired with all_as_kwargs(arg_names=L)
    for q, a, s in escapes:
        fr = prog.frame(q) if q in prog.funcs and prog.funcs[q].parent is None else None
        ok = False
        if fr is not None:
            for cids in fr.closures.values():
                for cid in cids:
                    cf = prog.closure_frame(cid)
                    norm_calls = [c for t in frame_terms(cf) for c in walk(t)
                                  if callee_name(c) == "lcm.functools.all_as_kwargs" and kw(c, "arg_names") == a]
                    pos_calls = [c for t in frame_terms(cf) for c in walk(t)
                                 if callee_name(c) == "lcm.functools.all_as_args" and kw(c, "arg_names") == a]
                    if norm_calls and not pos_calls:
                        ok = True
        ctx.ob(f"ORD:escape:{q.removeprefix('lcm.')}:with_signature", ok, prog.where(s),
               "a hash-ordered name list becomes a signature, but the closure rebinds its arguments BY NAME with the "
               "same list (all_as_kwargs) and dispatchers derive positions from that signature: order-insensitive"
               if ok else "a hash-ordered name list becomes a signature without the by-name rebinding idiom",
               lhs=show(a)[:200])
    ctx.count("hash_order_escapes", len(escapes))
    ctx.floor("order_sinks", 25)
