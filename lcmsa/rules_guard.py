"""R12 GUARD -- continuous-grid guards decided on a witness set; G-domain: every partial
operation applied to a grid field is covered by a guard.

The guard *expressions* extracted from the validators are evaluated by a tiny interpreter
over terms (comparisons, boolean connectives, isinstance, math.isfinite, arithmetic) on a
finite set of witness field values.  No code of the repository is executed.
"""

from __future__ import annotations

import math

from lcmsa.core import AnalysisError, callee_name, is_term, kw, show, walk
from lcmsa.match import need
from lcmsa.report import Ctx, rule

G = "lcm.grids"
NAN, INF = float("nan"), float("inf")


class Unknown(Exception):
    pass


def tev(t, env):  # noqa: C901, PLR0911, PLR0912
    """Concrete value of a guard term under ``env`` (maps param/attr terms to values)."""
    if t in env:
        return env[t]
    tag = t[0]
    if tag == "const":
        return t[1]
    if tag == "cmp":
        vals = [tev(x, env) for x in t[2]]
        ok = True
        for op, a, b in zip(t[1], vals[:-1], vals[1:], strict=True):
            try:
                r = {"<": lambda: a < b, "<=": lambda: a <= b, ">": lambda: a > b, ">=": lambda: a >= b,
                     "==": lambda: a == b, "!=": lambda: a != b, "is": lambda: a is b, "is not": lambda: a is not b}[op]()
            except TypeError as e:
                raise Unknown(str(e)) from e
            ok = ok and r
        return ok
    if tag == "boolop":
        if t[1] == "and":
            v = True
            for x in t[2]:
                v = tev(x, env)
                if not v:
                    return v
            return v
        v = False
        for x in t[2]:
            v = tev(x, env)
            if v:
                return v
        return v
    if tag == "unop":
        v = tev(t[2], env)
        return (not v) if t[1] == "not" else -v if t[1] == "-" else v
    if tag == "not":
        return not tev(t[1], env)
    if tag == "binop":
        a = tev(t[2], env)
        if t[1] == "|" and isinstance(a, type):
            b = tev(t[3], env)
            return (a, b) if not isinstance(b, tuple) else (a, *b)
        b = tev(t[3], env)
        try:
            return {"+": lambda: a + b, "-": lambda: a - b, "*": lambda: a * b, "/": lambda: a / b}[t[1]]()
        except ZeroDivisionError:
            raise
        except (TypeError, KeyError) as e:
            raise Unknown(str(e)) from e
    if tag == "glob":
        if t[1] == "builtins.int":
            return int
        if t[1] == "builtins.float":
            return float
        if t[1] == "builtins.bool":
            return bool
        if t[1] == "builtins.str":
            return str
        raise Unknown(t[1])
    if tag in ("phi", "ifexp"):
        return tev(t[2], env) if tev(t[1], env) else tev(t[3], env)
    if tag == "call":
        name = callee_name(t)
        if name == "builtins.isinstance":
            v, ty = tev(t[2][0], env), tev(t[2][1], env)
            flat = []
            for x in ty if isinstance(ty, tuple) else (ty,):
                flat.append(x)
            return isinstance(v, tuple(flat))
        if name == "math.isfinite":
            v = tev(t[2][0], env)
            try:
                return math.isfinite(v)
            except TypeError as e:
                raise Unknown(str(e)) from e
        if name in ("math.isnan", "math.isinf"):
            v = tev(t[2][0], env)
            return getattr(math, name.split(".")[1])(v)
        if name == "builtins.len":
            return list_len(t[2][0], env)
        if name == "builtins.bool":
            return bool(tev(t[2][0], env))
        raise Unknown(f"call {name}")
    if tag in ("list", "mut"):
        return list_len(t, env) > 0
    raise Unknown(tag)


def list_len(t, env):
    if t[0] == "list":
        return len(t[1])
    if t[0] == "mut" and t[2] == "append":
        return list_len(t[1], env) + 1
    if t[0] in ("phi", "ifexp"):
        return list_len(t[2], env) if tev(t[1], env) else list_len(t[3], env)
    raise Unknown(f"list {t[0]}")


def raises_on(fr, env, prog=None, funcs=None):
    """Does the function raise for the witness?  True / False / None (not decidable)."""
    from lcmsa import teval

    try:
        return teval.raises_on(prog, fr, env, funcs)[0]
    except (teval.Unknown, ZeroDivisionError, RecursionError, TypeError, AttributeError, KeyError):
        return None


def _truth(c, env):
    if c[0] in ("list", "mut", "phi") and _is_listish(c):
        return list_len(c, env) > 0
    return bool(tev(c, env))


def _is_listish(c):
    while c[0] in ("phi", "ifexp"):
        c = c[2]
    return c[0] in ("list", "mut")


# witnesses: (start, stop, n_points) -> should the constructor reject?
LIN_WITNESSES = [
    ((1, 2, 1), False), ((1, 2, 2), False), ((-1.5, 2.5, 5), False), ((0, 1, 3), False),
    ((2, 2, 3), True), ((3, 2, 3), True), ((1, 2, 0), True), ((1, 2, -1), True), ((1, 2, 1.5), True),
    ((1, 2, "a"), True), (("a", 2, 3), True), ((1, "b", 3), True), ((NAN, 2, 3), True), ((1, NAN, 3), True),
    ((-INF, 2, 3), True), ((1, INF, 3), True), ((None, 2, 3), True),
]
try:  # non-finite scalars that are numbers but not builtin floats (only if numpy is importable where the analyser runs)
    import numpy as _np

    LIN_WITNESSES += [((_np.float32("-inf"), 1.0, 3), True), ((1.0, _np.float32("nan"), 3), True), ((_np.float32("inf"), _np.float32("inf"), 2), True)]
except Exception:  # noqa: BLE001
    pass
LOG_EXTRA = [((0, 2, 3), True), ((-1, 2, 3), True), ((0.0, 2.0, 3), True), ((1e-3, 2, 3), False), ((1, 10, 2), False)]


# category classes (field name -> code) -> must the DiscreteGrid constructor reject them?
DISCRETE_WITNESSES = [
    ({"a": 0}, False), ({"a": 0, "b": 1}, False), ({"x": 0, "y": 1, "z": 2}, False), ({"a": 0, "b": 1, "c": 2, "d": 3}, False),
    ({}, True), ({"a": 1}, True), ({"a": 1, "b": 2}, True), ({"a": 0, "b": 2}, True), ({"a": 0, "b": 1, "c": 3}, True),
    ({"a": 0, "b": 0}, True), ({"a": 0, "b": 1, "c": 1}, True), ({"a": "x"}, True), ({"a": 0, "b": "1"}, True),
    ({"a": 0, "b": 2, "c": 1}, True), ({"a": 1, "b": 0}, True), ({"a": 0, "b": 1.5, "c": 2}, True),
    ({"a": 0, "b": 2, "c": 1, "d": 3}, True), ({"a": 0, "b": None}, True), ({"a": -1, "b": 0}, True),
    ({"a": 0, "b": 3, "c": 2}, True), ({"a": 0.5}, True),
]


def _discrete_grid_witnesses(ctx, prog):
    """DiscreteGrid accepts exactly the category classes whose codes are 0, 1, ..., n-1 in field order."""
    from lcmsa.teval import Witness

    vq = f"{G}._validate_discrete_grid"
    if vq not in prog.funcs:
        ctx.undecided("G:discrete:validator", f"{vq} not found (anchor vanished)")
        return
    vfr = prog.frame(vq)
    where = prog.node_where(vfr.module, prog.funcs[vq].node)
    pq = f"{G}.DiscreteGrid.__init__"
    if pq in prog.funcs:
        pfr = prog.frame(pq)
        call = [t for c, t, _n in pfr.effects if callee_name(t) == vq and not c]
        ok = bool(call) and (kw(call[0], "category_class") or (call[0][2][0] if call[0][2] else None)) == ("param", pq, "category_class")
        ctx.ob("G:discrete:validated-in-constructor", ok, prog.node_where(pfr.module, prog.funcs[pq].node),
               "DiscreteGrid.__init__ validates its category class unconditionally" if ok else
               "the constructor does not pass its category class to the validator unconditionally")
    pname = vfr.params[0] if vfr.params else "category_class"
    def first(a, k):
        return a[0] if a else next(iter(k.values()))

    funcs = {
        "dataclasses.is_dataclass": lambda *a, **k: isinstance(first(a, k), Witness) and first(a, k).is_dc,
        "dataclasses.fields": lambda *a, **k: [Witness(name=n) for n in first(a, k).fields],
        "builtins.getattr": lambda c, n, *d: c.fields[n] if isinstance(c, Witness) and hasattr(c, "fields") else getattr(c, n, *d),
        f"{G}._get_field_names_and_values": lambda *a, **k: dict(first(a, k).fields),
        "lcm.utils.format_messages": lambda *a, **k: str(first(a, k)),
    }
    for fields, want in [*DISCRETE_WITNESSES, (None, True)]:
        w = Witness(is_dc=fields is not None, fields=fields or {})
        label = "not-a-dataclass" if fields is None else str(list(fields.values()))
        got = raises_on(vfr, {("param", vq, pname): w}, prog, funcs)
        key = f"G:discrete:{'rejects' if want else 'accepts'}:{label}"
        ctx.count("discrete_witnesses")
        if got is None:
            ctx.undecided(key, "guard expression outside the interpreter's vocabulary", where)
            continue
        ctx.ob(key, got == want, where,
               (f"category codes {label} are rejected at construction" if want else f"valid category codes {label} are accepted")
               if got == want else
               (f"category codes {label} are ACCEPTED although they are not 0, 1, ..., n-1 in order" if want
                else f"valid category codes {label} are rejected"), lhs=label, rhs="reject" if want else "accept")
    ctx.floor("discrete_witnesses", 20)


@rule("R12.GUARD")
def grid_guards(ctx: Ctx):
    prog = ctx.prog
    vq = f"{G}._validate_continuous_grid"
    vfr = prog.frame(vq)
    P = lambda n: ("param", vq, n)  # noqa: E731
    # the constructor runs the validator on its own fields
    pq = f"{G}.ContinuousGrid.__post_init__"
    pfr = prog.frame(pq)
    call = [t for _c, t, _n in pfr.effects if callee_name(t) == vq]
    self_ = ("param", pq, "self")
    ok = bool(call) and all(kw(call[0], n) == ("attr", self_, n) for n in ("start", "stop", "n_points")) and not call[0][2]
    unconditional = bool(call) and any(t == call[0] and not c for c, t, _n in pfr.effects)
    ctx.ob("G:continuous-grid:validated-in-constructor", ok and unconditional, prog.node_where(pfr.module, prog.funcs[pq].node),
           "ContinuousGrid.__post_init__ validates (start, stop, n_points) of the instance unconditionally" if ok and unconditional
           else "the constructor does not pass its own fields to the validator unconditionally", lhs=show(call[0]) if call else "missing")
    exc_ok = all(callee_name(e) == "lcm.exceptions.GridInitializationError" or (e[0] == "call" and e[1] == ("class", "lcm.exceptions.GridInitializationError"))
                 for _c, e, _n in vfr.raises) and vfr.raises
    ctx.ob("G:continuous-grid:exception-class", bool(exc_ok), prog.node_where(vfr.module, prog.funcs[vq].node),
           "invalid continuous grids raise GridInitializationError" if exc_ok else "validator raises another exception class")
    lq = f"{G}.LogspaceGrid.__post_init__"
    lfr = prog.frame(lq) if lq in prog.funcs else None
    lself = ("param", lq, "self")
    calls_super = lfr is not None and any(
        t[0] == "call" and t[1][0] == "attr" and t[1][2] == "__post_init__" and callee_name(t[1][1]) == "builtins.super"
        for _c, t, _n in lfr.effects)

    def rejected(kind, w):
        s, e, n = w
        r = raises_on(vfr, {P("start"): s, P("stop"): e, P("n_points"): n}, prog)
        if r is True or kind == "lin":
            return r
        if lfr is None:
            return r
        if not calls_super:
            r = False  # the base validation is skipped
        r2 = raises_on(lfr, {("attr", lself, "start"): s, ("attr", lself, "stop"): e, ("attr", lself, "n_points"): n}, prog)
        if r is None or r2 is None:
            return None
        return r or r2

    accepted = {"lin": [], "log": []}
    for kind, table in (("lin", LIN_WITNESSES), ("log", LIN_WITNESSES + LOG_EXTRA)):
        for w, want in table:
            if kind == "log" and not want and isinstance(w[0], (int, float)) and w[0] <= 0:
                want = True
            got = rejected(kind, w)
            key = f"G:{kind}space:{'rejects' if want else 'accepts'}:{w}"
            ctx.count("guard_witnesses")
            if got is None:
                ctx.undecided(key, "guard expression outside the interpreter's vocabulary")
                continue
            if not got:
                accepted[kind].append(w)
            ctx.ob(key, got == want, prog.node_where(vfr.module, prog.funcs[vq].node),
                   (f"{kind}space grid {w} is rejected at construction" if want else f"valid {kind}space grid {w} is accepted")
                   if got == want else
                   (f"{kind}space grid (start, stop, n_points) = {w} is ACCEPTED although it cannot materialise to finite, "
                    "strictly increasing values" if want else f"valid {kind}space grid {w} is rejected"),
                   lhs=str(w), rhs="reject" if want else "accept")
    _discrete_grid_witnesses(ctx, prog)
    if lfr is not None:
        ctx.ob("G:logspace:base-validation-kept", calls_super, prog.node_where(lfr.module, prog.funcs[lq].node),
               "LogspaceGrid.__post_init__ still runs the base validation" if calls_super else
               "LogspaceGrid.__post_init__ overrides the base validation without calling it")
    # ---------------------------------------------------------------- G-domain
    gh = "lcm.grid_helpers"
    for fn, kind, value_ok in (("get_linspace_coordinate", "lin", None), ("get_logspace_coordinate", "log", None),
                               ("linspace", "lin", None), ("logspace", "log", None)):
        q = f"{gh}.{fn}"
        if q not in prog.funcs:
            ctx.undecided(f"GDOM:{fn}", "function not found")
            continue
        fr = prog.frame(q)
        r = prog.expand(fr.ret)
        pp = lambda n, q=q: ("param", q, n)  # noqa: E731
        bad = {}
        for w in accepted[kind]:
            env = {pp("start"): w[0], pp("stop"): w[1], pp("n_points"): w[2]}
            # also the inlined helper's parameters
            for s in walk(r):
                if s[0] == "binop" and s[1] == "/":
                    try:
                        d = tev(s[3], env)
                        if d == 0:
                            bad.setdefault(("division by zero", show(s[3])), w)
                    except Unknown:
                        pass
                    except ZeroDivisionError:
                        bad.setdefault(("division by zero", show(s[3])), w)
                if s[0] == "call" and callee_name(s) == "jax.numpy.log" and s[2]:
                    try:
                        v = tev(s[2][0], env)
                        if not v > 0:
                            bad.setdefault(("log of a non-positive value", show(s[2][0])), w)
                    except (Unknown, ZeroDivisionError, TypeError):
                        pass
        ctx.count("partial_operation_sites", sum(1 for s in walk(r) if (s[0] == "binop" and s[1] == "/") or callee_name(s) == "jax.numpy.log"))
        if not bad:
            ctx.ob(f"GDOM:{fn}", True, prog.node_where(fr.module, prog.funcs[q].node),
                   f"every division / logarithm in {fn} is defined for all accepted witness grids ({len(accepted[kind])})")
        emitted = set()
        for (what, expr), w in bad.items():
            if (what, w[2]) in emitted:
                continue
            emitted.add((what, w[2]))
            ctx.ob(f"GDOM:{fn}:{what.replace(' ', '-')}:n_points={w[2]}", False, prog.node_where(fr.module, prog.funcs[q].node),
                   f"{fn}: {what} ({expr}) for the ACCEPTED grid (start, stop, n_points) = {w}: no guard excludes it",
                   lhs=expr, rhs=str(w))
    ctx.floor("guard_witnesses", 30)


@rule("R12.FILTERPARAMS")
def filter_params_guard(ctx: Ctx):
    """Filters with parameters are rejected when the functions are created (C12)."""
    prog = ctx.prog
    q = "lcm.input_processing.process_model._get_internal_functions"
    fr = prog.frame(q)
    where = prog.node_where(fr.module, prog.funcs[q].node)
    cands = []
    for conds, exc, node in fr.raises:
        txt = " ".join(show(c) for c in conds)
        if "is_filter" in txt:
            cands.append((conds, exc, node))
    if not cands:
        # the loop body may have been moved into a helper: look for the guard in the private helpers this function calls
        import ast as _ast

        called = {n.func.id for n in _ast.walk(prog.funcs[q].node) if isinstance(n, _ast.Call) and isinstance(n.func, _ast.Name)}
        module = q.rsplit(".", 1)[0]
        for name in sorted(called):
            hq = f"{module}.{name}"
            if hq in prog.funcs and prog.funcs[hq].parent is None:
                hfr = prog.frame(hq)
                if any("is_filter" in " ".join(show(c) for c in conds_) or "filter" in show(e_).lower() for conds_, e_, _n in hfr.raises):
                    ctx.undecided("G:filter-with-parameters:guard", f"the guard was moved into the helper {hq}; it is not evaluated there", where)
                    return
    if not cands:
        ctx.ob("G:filter-with-parameters:guard-exists", False, where,
               "no raise in _get_internal_functions depends on the function being a filter: filters with parameters are "
               "no longer rejected at build time")
        return
    conds, exc, node = cands[0]
    okc = callee_name(exc) == "builtins.ValueError"
    ctx.ob("G:filter-with-parameters:exception-class", okc, prog.node_where(fr.module, node),
           "a filter with parameters raises ValueError" if okc else f"raises {show(exc)[:40]}")
    # evaluate the guard on witnesses: (is_filter, params entry) -> raise?
    # the atomic "is this function a filter" reads: smallest sub-terms that mention the column
    def flag_atoms(c):
        kids = [y for x in c[1:] if isinstance(x, tuple) for y in ([x] if is_term(x) else [z for z in x if is_term(z)])]
        inner = [a for k in kids if "is_filter" in show(k) for a in flag_atoms(k)]
        if inner:
            return inner
        # a read of the column (`info.loc[name, "is_filter"]`, `info.is_filter[name]`, `name in <query 'is_filter'>`)
        return [c] if "is_filter" in show(c) and c[0] in ("sub", "attr", "cmp", "call") else []

    relevant = [c for c in conds if c[0] != "in-loop" and "weight_next_" not in show(c)]
    flags = list(dict.fromkeys(a for c in relevant for a in flag_atoms(c)))
    flag_terms, other = [], relevant
    results = {}
    for is_filter in (True, False):
        for entry in ({"a": 1.0}, {}):
            env = {}
            for base in flags:
                env[base] = is_filter
            for c in other:
                for s_ in walk(c):
                    if s_[0] == "call" and s_[1][0] == "attr" and s_[1][2] == "get":
                        env[s_] = entry if entry else (tev(s_[2][1], {}) if len(s_[2]) > 1 else None)
                    if s_[0] == "sub" and s_[1][0] == "param" and s_[1][2] == "params":
                        env[s_] = entry
            try:
                results[(is_filter, bool(entry))] = all(bool(tev(c, env)) for c in flag_terms + other)
            except Unknown:
                results[(is_filter, bool(entry))] = None
    want = {(True, True): True, (True, False): False, (False, True): False, (False, False): False}
    if any(v is None for v in results.values()):
        ctx.undecided("G:filter-with-parameters:guard", f"guard not evaluable: {show(conds[-1])[:80]}")
    else:
        ok = results == want
        ctx.ob("G:filter-with-parameters:guard", ok, prog.node_where(fr.module, node),
               "a filter is rejected exactly when the template lists parameters for it" if ok else
               f"guard truth table {results} differs from the required {want}", lhs=str(results), rhs=str(want))
    # build phase: called unconditionally from process_model
    pm = prog.frame("lcm.input_processing.process_model.process_model")
    called = any(callee_name(s_) == q for s_ in walk(pm.ret))
    ctx.ob("G:filter-with-parameters:build-phase", called, prog.where(pm.ret),
           "the guard runs inside process_model, i.e. when get_lcm_function creates the functions" if called else
           "the guard function is not called by process_model", lhs=show(pm.ret)[:160])


@rule("R12.INTERPAXES")
def interpolation_axes_guard(ctx: Ctx):
    """The guard of the function representation rejects exactly the axis orders in which the continuous
    (interpolated) axes are not the trailing axes -- decided on every axis order of up to four names
    and every set of interpolated names over them, by evaluating the guard's own raise conditions."""
    import itertools

    from lcmsa.teval import Witness

    prog = ctx.prog
    q = "lcm.function_representation._fail_if_interpolation_axes_are_not_last"
    if q not in prog.funcs:
        ctx.undecided("G:interp-axes:guard", f"{q} not found (anchor vanished)")
        return
    fr = prog.frame(q)
    where = prog.node_where(fr.module, prog.funcs[q].node)
    gq = "lcm.function_representation.get_function_representation"
    if gq in prog.funcs:
        gfr = prog.frame(gq)
        calls = [(c, t) for c, t, _n in gfr.effects if callee_name(t) == q]
        ok = bool(calls) and any(not c and ((t[2] and t[2][0] == ("param", gq, "space_info")) or kw(t, fr.params[0]) == ("param", gq, "space_info"))
                                 for c, t in calls)
        ctx.ob("G:interp-axes:guard-called", ok if calls else None, prog.node_where(gfr.module, prog.funcs[gq].node),
               "get_function_representation checks its space_info unconditionally before building the function" if ok else
               "the axis-order guard is not applied unconditionally to the space_info the representation is built from")
    pname = fr.params[0] if fr.params else "space_info"
    names = ("a", "b", "c", "d")
    n_bad = 0
    undecided = None
    for n in range(0, 5):
        for axes in itertools.permutations(names, n):
            for k in range(0, len(names) + 2):
                for interp in itertools.combinations((*names, "z"), k):
                    common = set(interp) & set(axes)
                    want = bool(common) and set(axes[len(axes) - len(common):]) != common
                    w = Witness(axis_names=tuple(axes), interpolation_info={x: None for x in interp},
                                axis_order=tuple(axes), indexer_infos={}, lookup_info={})
                    got = raises_on(fr, {("param", q, pname): w}, prog, {})
                    ctx.count("interp_axes_witnesses")
                    if got is None:
                        undecided = (axes, interp)
                    elif got != want and n_bad < 3:
                        n_bad += 1
                        label = f"axes={list(axes)} interpolated={sorted(interp)}"
                        ctx.ob(f"G:interp-axes:{'rejects' if want else 'accepts'}:{label}", False, where,
                               (f"{label}: a continuous axis precedes a discrete one, yet the guard ACCEPTS the order -- the "
                                "representation would index the leading axes as lookups and interpolate the rest") if want else
                               f"{label}: a valid axis order is rejected", lhs=label, rhs="reject" if want else "accept")
    if undecided is not None and not n_bad:
        ctx.undecided("G:interp-axes:witnesses", f"guard expression outside the interpreter's vocabulary (e.g. axes={undecided[0]}, interpolated={undecided[1]})", where)
    elif not n_bad:
        ctx.ob("G:interp-axes:witnesses", True, where,
               "on every axis order of up to 4 names and every interpolated subset the guard raises iff the interpolated axes are not the trailing axes")
    ctx.floor("interp_axes_witnesses", 2000)
