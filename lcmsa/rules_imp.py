"""R1 IMP -- every imported name / attribute chain resolves in the installed distribution.

Installed packages are read as *source text* (AST); nothing is imported.  Verdicts:
resolved / refuted (module source found, name definitely not bound) / opaque (compiled
module, dynamic __getattr__, star import from an opaque module ...; counted, never a
violation).
"""

from __future__ import annotations

import ast
import sys
import sysconfig
from functools import lru_cache
from pathlib import Path

from lcmsa.core import walk
from lcmsa.match import all_frames, frame_terms, loop_terms
from lcmsa.report import Ctx, rule

SITE = [Path(sysconfig.get_paths()["purelib"]), Path(sysconfig.get_paths()["platlib"])]
STDLIB = set(sys.stdlib_module_names)


@lru_cache(maxsize=None)
def _find_module(dotted: str):
    """Return ('pkg', path to __init__.py) / ('mod', path.py) / ('compiled', path) / None."""
    parts = dotted.split(".")
    for base in dict.fromkeys(SITE):
        d = base.joinpath(*parts)
        if (d / "__init__.py").is_file():
            return ("pkg", d / "__init__.py")
        f = base.joinpath(*parts[:-1], parts[-1] + ".py")
        if f.is_file():
            return ("mod", f)
        if d.is_dir():
            return ("nspkg", d)
        for so in base.joinpath(*parts[:-1]).glob(parts[-1] + ".*.so") if base.joinpath(*parts[:-1]).is_dir() else []:
            return ("compiled", so)
        pyi = base.joinpath(*parts[:-1], parts[-1] + ".pyi")
        if pyi.is_file():
            return ("compiled", pyi)
    return None


@lru_cache(maxsize=None)
def _bindings(path: Path):
    """(names bound at module level, star-import sources, has dynamic __getattr__, deprecated names served)."""
    try:
        tree = ast.parse(path.read_text())
    except (SyntaxError, UnicodeDecodeError, OSError):
        return None
    names, stars, lazy = set(), [], set()
    dynamic = False
    deleted = set()
    dicts = {}

    def visit(body, top=True):
        nonlocal dynamic
        for n in body:
            if isinstance(n, (ast.FunctionDef, ast.AsyncFunctionDef, ast.ClassDef)):
                names.add(n.name)
                if n.name == "__getattr__":
                    dynamic = True
            elif isinstance(n, ast.Assign):
                for t in n.targets:
                    for x in ast.walk(t):
                        if isinstance(x, ast.Name):
                            names.add(x.id)
                            if x.id == "__getattr__":
                                # jax idiom: __getattr__ = _deprecation_getattr(__name__, _deprecations)
                                v = n.value
                                if isinstance(v, ast.Call) and len(v.args) == 2 and isinstance(v.args[1], ast.Name) and v.args[1].id in dicts:
                                    for k, val in dicts[v.args[1].id]:
                                        # entries whose replacement is None are *removed* names
                                        if not (isinstance(val, ast.Tuple) and val.elts and isinstance(val.elts[-1], ast.Constant) and val.elts[-1].value is None):
                                            lazy.add(k)
                                else:
                                    dynamic = True
                    if isinstance(n.value, ast.Dict) and len(n.targets) == 1 and isinstance(n.targets[0], ast.Name):
                        dicts[n.targets[0].id] = [(k.value, v) for k, v in zip(n.value.keys, n.value.values, strict=True)
                                                  if isinstance(k, ast.Constant) and isinstance(k.value, str)]
            elif isinstance(n, ast.AnnAssign) and isinstance(n.target, ast.Name):
                names.add(n.target.id)
                if isinstance(n.value, ast.Dict):
                    dicts[n.target.id] = [(k.value, v) for k, v in zip(n.value.keys, n.value.values, strict=True)
                                          if isinstance(k, ast.Constant) and isinstance(k.value, str)]
            elif isinstance(n, ast.Import):
                for a in n.names:
                    names.add((a.asname or a.name).split(".")[0])
            elif isinstance(n, ast.ImportFrom):
                for a in n.names:
                    if a.name == "*":
                        stars.append((n.module or "", n.level))
                    else:
                        names.add(a.asname or a.name)
            elif isinstance(n, ast.Delete):
                for t in n.targets:
                    if isinstance(t, ast.Name):
                        deleted.add(t.id)
            elif isinstance(n, (ast.If, ast.Try, ast.With)):
                for fld in ("body", "orelse", "finalbody"):
                    visit(getattr(n, fld, []) or [], False)
                for h in getattr(n, "handlers", []):
                    visit(h.body, False)
            elif isinstance(n, (ast.For, ast.While)):
                dynamic_names = any(isinstance(x, ast.Call) and getattr(x.func, "id", "") in ("setattr", "globals") for x in ast.walk(n))
                if dynamic_names:
                    dynamic = True
            elif isinstance(n, ast.Expr) and isinstance(n.value, ast.Call):
                f = n.value.func
                if isinstance(f, ast.Attribute) and isinstance(f.value, ast.Call) and getattr(f.value.func, "id", "") == "globals":
                    dynamic = True

    visit(tree.body)
    return names - deleted | (names & deleted if False else set()), stars, dynamic, lazy, deleted


def resolve_attr(module: str, attr: str, depth=0):
    """Is ``attr`` available on module ``module``?  -> 'yes' / 'no' / 'opaque'."""
    if module.split(".")[0] in STDLIB:
        return "opaque"
    found = _find_module(module)
    if found is None:
        return "no-module"
    kind, path = found
    if kind in ("compiled", "nspkg"):
        sub = _find_module(f"{module}.{attr}")
        return "yes" if sub is not None else "opaque"
    if _find_module(f"{module}.{attr}") is not None:
        return "yes"
    b = _bindings(path)
    if b is None:
        return "opaque"
    names, stars, dynamic, lazy, deleted = b
    if attr in names and attr not in deleted:
        return "yes"
    if attr in lazy:
        return "yes"
    if depth < 3:
        for mod, level in stars:
            if level:
                base = module.split(".")
                if kind != "pkg":
                    base = base[:-1]
                base = base[: len(base) - (level - 1)]
                target = ".".join([*base, mod]) if mod else ".".join(base)
            else:
                target = mod
            r = resolve_attr(target, attr, depth + 1)
            if r == "yes":
                return "yes"
            if r in ("opaque", "no-module"):
                return "opaque"
    if dynamic:
        return "opaque"
    return "no"


def resolve_chain(dotted: str):
    """Resolve 'pkg.sub.name.attr' as far as modules go. -> (verdict, detail)."""
    parts = dotted.split(".")
    if parts[0] in STDLIB or parts[0] == "builtins":
        return "stdlib", ""
    if _find_module(parts[0]) is None:
        return "no", f"top-level package '{parts[0]}' is not installed"
    mod = parts[0]
    for i, attr in enumerate(parts[1:], 1):
        r = resolve_attr(mod, attr)
        if r == "no":
            return "no", f"module '{mod}' (installed, source read) has no attribute '{attr}'"
        if r in ("opaque", "no-module"):
            return "opaque", f"'{mod}.{attr}' cannot be decided from source"
        nxt = f"{mod}.{attr}"
        if _find_module(nxt) is None:
            # attr is an object (function/class): deeper attributes are not modules
            return ("yes" if i == len(parts) - 1 else "yes-object"), ""
        mod = nxt
    return "yes", ""


def _optional_imports(tree):
    """Import statements inside try: ... except ImportError."""
    out = set()
    for n in ast.walk(tree):
        if isinstance(n, ast.Try) and any(
            h.type is not None and any(getattr(x, "id", "") in ("ImportError", "ModuleNotFoundError") for x in ast.walk(h.type))
            for h in n.handlers
        ):
            for s in n.body:
                for x in ast.walk(s):
                    if isinstance(x, (ast.Import, ast.ImportFrom)):
                        out.add(x)
    return out


@rule("R1.IMP")
def imports_resolve(ctx: Ctx):
    prog = ctx.prog
    for m in prog.modules.values():
        if m.name.startswith(("lcmref", "lcmfix")):
            continue
        optional = _optional_imports(m.tree)
        for node in ast.walk(m.tree):
            if node in optional or not isinstance(node, (ast.Import, ast.ImportFrom)):
                continue
            where = prog.node_where(m.name, node)
            if isinstance(node, ast.Import):
                targets = [a.name for a in node.names]
            else:
                if node.level:
                    continue
                targets = [f"{node.module}.{a.name}" for a in node.names if a.name != "*"]
            for t in targets:
                ctx.count("imported_names")
                if t == "lcm" or t.startswith("lcm."):
                    ok = _lcm_name_exists(prog, t)
                    ctx.ob(f"IMP:{m.name.removeprefix('lcm.')}:{t}", ok, where,
                           "internal import resolves" if ok else f"'{t}' is not defined in the source tree", lhs=t)
                    continue
                v, detail = resolve_chain(t)
                if v == "no":
                    ctx.ob(f"IMP:{m.name.removeprefix('lcm.')}:{t}", False, where,
                           f"import of '{t}' cannot succeed with the installed distribution: {detail}", lhs=t)
                elif v in ("yes", "yes-object", "stdlib"):
                    ctx.ob(f"IMP:{m.name.removeprefix('lcm.')}:{t}", True, where,
                           "resolves in the installed distribution" if v != "stdlib" else "standard library",
                           lhs=t, nontrivial=v != "stdlib")
                else:
                    ctx.count("opaque")
    # attribute chains rooted at imported third-party modules
    seen = set()
    for name, fr in all_frames(prog).items():
        if name.startswith(("lcmref", "lcmfix")):
            continue
        for t in frame_terms(fr) + loop_terms(prog, fr):
            for s in walk(t):
                if s[0] == "glob" and s[1] not in seen and "." in s[1]:
                    seen.add(s[1])
                    root = s[1].split(".")[0]
                    if root in STDLIB or root in ("builtins", "lcm"):
                        continue
                    ctx.count("attribute_chains")
                    v, detail = resolve_chain(s[1])
                    if v == "no":
                        ctx.ob(f"IMP:chain:{s[1]}", False, prog.where(s),
                               f"'{s[1]}' is used in {name.split('@')[0]} but {detail}", lhs=s[1])
                    elif v in ("yes", "yes-object"):
                        ctx.ob(f"IMP:chain:{s[1]}", True, prog.where(s), "attribute chain resolves", lhs=s[1])
                    else:
                        ctx.count("opaque")
    ctx.floor("imported_names", 120)
    ctx.floor("attribute_chains", 30)


def _lcm_name_exists(prog, dotted):
    if dotted in prog.modules:
        return True
    mod, _, attr = dotted.rpartition(".")
    if mod in prog.modules:
        tree = prog.modules[mod].tree
        for n in tree.body:
            if isinstance(n, (ast.FunctionDef, ast.ClassDef)) and n.name == attr:
                return True
            if isinstance(n, ast.Assign) and any(isinstance(t, ast.Name) and t.id == attr for t in n.targets):
                return True
            if isinstance(n, (ast.Import, ast.ImportFrom)) and any((a.asname or a.name).split(".")[0] == attr for a in n.names):
                return True
            if isinstance(n, ast.Try):
                for x in ast.walk(n):
                    if isinstance(x, (ast.Import, ast.ImportFrom)) and any((a.asname or a.name) == attr for a in x.names):
                        return True
    return False
