"""Kernel agreement: leaf primitives vs their reference forms (normal-form comparison)."""

from __future__ import annotations

from pathlib import Path

from lcmsa.alg import METHODS, first_difference, lib_op, norm
from lcmsa.core import AnalysisError, callee_name, is_term, walk
from lcmsa.report import Ctx, rule

REF = "lcmref.kernels"
REF_PATH = Path(__file__).parent / "reference" / "kernels.py"

KNOWN_HEAD_PREFIXES = ("jax.", "numpy.", "builtins.", "operator.", "functools.", "itertools.", "pandas.", "math.")


def ensure_ref(prog):
    if REF not in prog.modules:
        prog.load_extra(REF, REF_PATH)


def in_vocab(t) -> bool:
    """All constructs of the (un-normalised) term are ones the normaliser interprets."""
    for s in walk(t):
        if s[0] in ("unknown", "undef"):
            return False
        if s[0] == "call":
            f = s[1]
            if f[0] in ("glob",):
                if not f[1].startswith(KNOWN_HEAD_PREFIXES) and not f[1].startswith("lcm"):
                    return False
            elif f[0] in ("func", "class", "closure", "param", "call", "bv", "sub"):
                continue
            elif f[0] == "attr":
                continue
            else:
                return False
    return True


def param_names(node):
    a = node.args
    return [x.arg for x in a.posonlyargs + a.args + a.kwonlyargs]


def _rename(t, src_q, dst_q, names_src, names_dst):
    mapping = {}
    for a, b in zip(names_src, names_dst, strict=False):
        mapping[("param", src_q, a)] = ("param", dst_q, b)

    def go(x):
        if not isinstance(x, tuple):
            return x
        if is_term(x) and x[0] == "param" and x in mapping:
            return mapping[x]
        return tuple(go(y) if isinstance(y, tuple) else y for y in x)

    return go(t)


def _retarget(prog, t, module):
    """Reference helpers that were not inlined denote the same-named function of ``module``."""
    if not isinstance(t, tuple):
        return t
    if is_term(t) and t[0] == "func" and t[1].startswith(REF + "."):
        cand = f"{module}.{t[1][len(REF) + 1:]}"
        return ("func", cand) if cand in prog.funcs else t
    return tuple(_retarget(prog, x, module) if isinstance(x, tuple) else x for x in t)


def compare(ctx: Ctx, actual_q: str, ref_name: str, what: str, *, decorated=False):
    prog = ctx.prog
    ensure_ref(prog)
    ref_q = f"{REF}.{ref_name}"
    key = f"KER:{actual_q.removeprefix('lcm.')}"
    if actual_q not in prog.funcs:
        ctx.undecided(key, f"function {actual_q} not found (anchor vanished)")
        return
    ia, ir = prog.funcs[actual_q], prog.funcs[ref_q]
    fa, fr = prog.frame(actual_q), prog.frame(ref_q)
    na_names, nr_names = param_names(ia.node), param_names(ir.node)
    where = prog.node_where(ia.module, ia.node)
    if len(na_names) != len(nr_names):
        ctx.undecided(key, f"{actual_q} takes {len(na_names)} parameters, reference {len(nr_names)}: signature changed", where)
        return
    if fa.unsupported:
        ctx.undecided(key, f"{actual_q} uses a statement outside the vocabulary ({fa.unsupported[0][0]})", where)
        return
    ra = prog.expand(fa.ret)
    rr = prog.expand(_rename(fr.ret, ref_q, actual_q, nr_names, na_names))
    rr = _retarget(prog, rr, ia.module)
    a, r = norm(ra), norm(rr)
    # references call reference helpers; after expansion only library ops remain
    ctx.count("kernels")
    if a == r:
        ctx.ob(key, True, where, f"{what}: normal form equals the reference form", lhs=ra, rhs="reference " + ref_name)
    else:
        diff = first_difference(a, r)
        if in_vocab(ra):
            ctx.ob(key, False, where, f"{what}: differs from the reference form at {diff}", lhs=ra, rhs=rr)
        else:
            ctx.undecided(key, f"{what}: differs from the reference form at {diff}, but the function uses "
                          "constructs outside the analyser's vocabulary", where)
    if decorated:
        mfa = prog.module_frame(ia.module).env.get(ia.node.name)
        mfr = prog.module_frame(REF).env.get(ir.node.name)

        def strip(t, q):
            if not isinstance(t, tuple):
                return t
            if t == ("func", q):
                return ("func", "<f>")
            return tuple(strip(x, q) if isinstance(x, tuple) else x for x in t)

        da, dr = norm(strip(mfa, actual_q)), norm(strip(mfr, ref_q))
        ctx.ob(key + ":decorators", da == dr, where,
               f"{what}: decorators equal the reference" if da == dr else
               f"{what}: decorator differs: {first_difference(da, dr)}", lhs=mfa, rhs=mfr)


def kernel_rule(name, items):
    @rule(name)
    def r(ctx: Ctx):
        for actual_q, ref_name, what, deco in items:
            compare(ctx, actual_q, ref_name, what, decorated=deco)
        ctx.floor("kernels", len(items))

    return r


ker_argmax = kernel_rule("KER.argmax", [
    ("lcm.argmax.argmax", "argmax", "masked arg-max (max, equality mask conjoined with the feasibility mask, first True)", False),
    ("lcm.argmax.segment_argmax", "segment_argmax", "segment arg-max (segment max, equality mask, largest matching row id)", False),
])
ker_discrete = kernel_rule("KER.discrete", [
    ("lcm.discrete_problem._solve_discrete_problem_no_shocks", "_solve_discrete_problem_no_shocks",
     "max over the dense choice axes, then segment max over the choice segments", False),
])
ker_logsumexp = kernel_rule("KER.logsumexp", [
    ("lcm.discrete_problem._segment_logsumexp", "_segment_logsumexp", "max-shifted segment log-sum-exp", False),
    ("lcm.discrete_problem._segment_extreme_value_emax_over_first_axis", "_segment_extreme_value_emax_over_first_axis",
     "scale * logsumexp(values / scale) over segments", False),
    ("lcm.discrete_problem._calculate_emax_extreme_value_shocks", "_calculate_emax_extreme_value_shocks",
     "scale * logsumexp(values / scale) over dense choice axes, then over segments", False),
])
ker_interp = kernel_rule("KER.interp", [
    ("lcm.ndimage._compute_indices_and_weights", "_compute_indices_and_weights",
     "lower index clipped to [0, size-2]; weights (1-w, w) with w = coordinate - lower index", False),
    ("lcm.ndimage._multiply_all", "_multiply_all", "product of the per-axis weights", False),
    ("lcm.ndimage._sum_all", "_sum_all", "sum of the weighted corner values", False),
    ("lcm.grid_helpers.get_linspace_coordinate", "get_linspace_coordinate", "(value - start) / step", False),
    ("lcm.grid_helpers.get_logspace_coordinate", "get_logspace_coordinate",
     "cell found in log space, position inside the cell linear in the value", False),
])
ker_grids = kernel_rule("KER.grids", [
    ("lcm.grid_helpers.linspace", "linspace", "jnp.linspace(start, stop, n_points)", False),
    ("lcm.grid_helpers.logspace", "logspace", "jnp.logspace(log start, log stop, n_points, base=e)", False),
])
ker_random = kernel_rule("KER.random", [
    ("lcm.random_choice.random_choice", "random_choice", "one sub-key per agent, split from the variable's key", False),
    ("lcm.random_choice._vmapped_random_choice", "_vmapped_random_choice",
     "jax.random.choice(key, a=labels, p=probs) mapped over keys and probability rows", True),
    ("lcm.simulate._generate_simulation_keys", "_generate_simulation_keys",
     "split into len(ids)+1 keys: first carried on, the others zipped with ids", False),
])
ker_simulate = kernel_rule("KER.simulate", [
    ("lcm.simulate.create_choice_segments", "create_choice_segments",
     "segment ids = agent coordinate of the (agent x choice-combination) rows that pass the mask", False),
    ("lcm.simulate.dict_product", "dict_product", "row-major product of the sparse choice grids", False),
    ("lcm.simulate.retrieve_non_sparse_choices", "retrieve_non_sparse_choices",
     "flat index -> per-variable index via unravel_index over the grid shape -> grid value", False),
])
ker_frame = kernel_rule("KER.frame", [
    ("lcm.simulate._as_data_frame", "_as_data_frame", "MultiIndex.from_product([periods, agents]) with level names", False),
])
ker_functools = kernel_rule("KER.functools", [
    ("lcm.functools.convert_kwargs_to_args", "convert_kwargs_to_args", "values ordered by position of their key in the parameter list", False),
    ("lcm.functools.all_as_kwargs", "all_as_kwargs", "positional values named by the leading arg_names, merged with kwargs", False),
    ("lcm.functools.all_as_args", "all_as_args", "args followed by kwargs converted in arg_names order", False),
])
ker_space = kernel_rule("KER.space", [
    ("lcm.state_space._create_value_grid", "_create_value_grid", "dense grids passed through unchanged, in grid order", False),
])
