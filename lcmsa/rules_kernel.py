"""Kernel agreement: leaf primitives vs their reference forms (normal-form comparison)."""

from __future__ import annotations

import ast
from pathlib import Path

from lcmsa.alg import METHODS, _short, first_difference, hoist, lib_op, norm
from lcmsa.core import AnalysisError, callee_name, canon_bv, is_term, walk
from lcmsa.editdist import local_cost, local_cost2
from lcmsa.report import Ctx, rule

REF = "lcmref.kernels"
REF_PATH = Path(__file__).parent / "reference" / "kernels.py"

KNOWN_HEAD_PREFIXES = ("jax.", "numpy.", "builtins.", "operator.", "functools.", "itertools.", "pandas.", "math.")


def ensure_ref(prog):
    if REF not in prog.modules:
        prog.load_extra(REF, REF_PATH)
        for f in sorted(REF_PATH.parent.glob("ref_*.py")):
            prog.load_extra(f"lcmref.{f.stem}", f)
    if getattr(prog, "_query_canon", None) is None:
        from lcmsa import alg
        from lcmsa.formula import Universe, columns, parse

        try:
            from lcmsa.rules_qa import FUNC_COLS, VAR_COLS, build_universe

            uni = build_universe(prog)
        except AnalysisError:
            uni = None
        funi = Universe(["is_constraint", "is_filter", "is_stochastic_next", "starts_with_next"],
                        {"is_next": ("and", ("col", "starts_with_next"),
                                     ("and", ("not", ("col", "is_constraint")), ("not", ("col", "is_filter"))))}, [])

        def canon_query(s):
            try:
                f = parse(s)
            except AnalysisError:
                return None
            cols = columns(f)
            if uni is not None and cols <= VAR_COLS:
                return ("qsel", "var", tuple(sorted(uni.select(f))))
            if cols <= FUNC_COLS:
                return ("qsel", "func", tuple(sorted(funi.select(f))))
            return None

        prog._query_canon = canon_query  # noqa: SLF001
    from lcmsa import alg

    alg.QUERY_CANON = prog._query_canon  # noqa: SLF001
    global _MODULE_PARTS  # noqa: PLW0603
    _MODULE_PARTS = {part for m in prog.modules for part in m.split(".")}


def in_vocab(t) -> bool:
    """No unresolved name / undefined value occurs in the term: every head is a resolved
    library object, an lcm function, a parameter or a closure."""
    # an undefined *name* is a definite defect of the function (NameError), not a limit of the analyser
    return all(not (s[0] == "unknown" and not str(s[1]).startswith("name ")) for s in walk(t))


def param_names(node):
    a = node.args
    return [x.arg for x in a.posonlyargs + a.args + a.kwonlyargs]


def _rename(t, src_q, dst_q, names_src, names_dst):
    mapping = {}
    for a, b in zip(names_src, names_dst, strict=False):
        mapping[("param", src_q, a)] = ("param", dst_q, b)

    def go(x):
        if not isinstance(x, tuple):
            return x
        if is_term(x) and x[0] == "param" and x in mapping:
            return mapping[x]
        return tuple(go(y) if isinstance(y, tuple) else y for y in x)

    return go(t)


def _retarget(prog, t, module):
    """Reference helpers that were not inlined denote the same-named function of ``module``."""
    if not isinstance(t, tuple):
        return t
    if is_term(t) and t[0] == "func" and t[1].startswith("lcmref."):
        short = t[1].split(".", 2)[2]
        if "__" in short and short.split("__")[0][:1].isupper():
            cls, meth = short.split("__", 1)
            for cand in (f"{module}.{cls}.__{meth}__", f"{module}.{cls}.{meth}"):
                if cand in prog.funcs:
                    return ("func", cand)
        cand = f"{module}.{short}"
        if cand in prog.funcs:
            return ("func", cand)
        others = [q for q, i in prog.funcs.items() if q.endswith("." + short) and i.parent is None
                  and i.cls is None and not q.startswith("lcmref.")]
        return ("func", others[0]) if len(others) == 1 else t
    return tuple(_retarget(prog, x, module) if isinstance(x, tuple) else x for x in t)


_COVERED = None


def covered_functions(prog):
    """Qualified names (actual and reference) of every function that has a reviewed form."""
    global _COVERED  # noqa: PLW0603
    if _COVERED is None:
        out = set()
        for name, obj in list(globals().items()):
            items = getattr(obj, "kernel_items", None)
            if items:
                for it in items:
                    out.add(it[0])
                    out.add(it[1] if it[1].startswith("lcmref.") else f"{REF}.{it[1]}")
        _COVERED = frozenset(out)
    # a covered helper that was moved to another module of the package keeps its reviewed form (and stays opaque)
    moved = getattr(prog, "_covered_moved", None)
    if moved is None:
        missing = {q.rsplit(".", 1)[-1] for q in _COVERED if q.startswith("lcm.") and q not in prog.funcs}
        moved = frozenset(q for q, i in prog.funcs.items() if i.parent is None and i.cls is None and q.startswith("lcm.")
                          and q not in _COVERED and q.rsplit(".", 1)[-1] in missing and q.rsplit(".", 1)[-1].startswith("_"))
        prog._covered_moved = moved  # noqa: SLF001
    return _COVERED | moved


def _relocated(prog, q):
    """A private helper that was moved to another module of the package is still the same anchor."""
    if q in prog.funcs:
        return q
    short = q.rsplit(".", 1)[-1]
    if not short.startswith("_"):
        return q
    others = [x for x, i in prog.funcs.items() if x.startswith("lcm.") and i.parent is None and i.cls is None and x.rsplit(".", 1)[-1] == short]
    return others[0] if len(others) == 1 else q


def _loops_of(prog, q):
    return sorted((lid for lid, lp in prog.loops.items() if lp.func == q and "@" not in lid),
                  key=lambda x: int(x.rsplit("loop", 1)[1]))


def _relid(t, src_q, dst_q):
    """Loop ids of the reference function -> loop ids of the actual function."""
    if not isinstance(t, tuple):
        return t
    if is_term(t) and t[0] in ("loopvar", "carried", "loopout") and isinstance(t[1], str) and t[1].startswith(src_q + ":"):
        return (t[0], dst_q + t[1][len(src_q):], *t[2:])
    return tuple(_relid(x, src_q, dst_q) if isinstance(x, tuple) else x for x in t)


def _loop_names_in_order(lp):
    """Loop-carried names in the order of their first (re)binding in the loop body."""
    order = []

    def add(n):
        if n in lp.next and n not in order:
            order.append(n)

    for node in ast.walk(ast.Module(body=lp.node.body, type_ignores=[])):
        if isinstance(node, ast.Name) and isinstance(node.ctx, (ast.Store, ast.Load)):
            add(node.id)
    for n in sorted(lp.next):
        add(n)
    return order


def _pure_builder(prog, lid):
    """Every name carried by the loop is either built comprehension-style or a temporary of the body."""
    lp = prog.loops[lid]
    ok_any = False
    for n, nxt in lp.next.items():
        if _loop_as_comp(prog, lid, n) is not None:
            ok_any = True
        elif any(is_term(x) and x[0] == "carried" and x[1] == lid for x in walk(nxt)):
            return False  # a genuine accumulation
    return ok_any


def _loop_pieces(prog, q):
    out = []
    for k, lid in enumerate(_loops_of(prog, q)):
        lp = prog.loops[lid]
        if _pure_builder(prog, lid):
            continue  # compared through the comprehension it is equivalent to
        out.append((f"loop {k + 1} iterable", lp.iter))
        for i, n in enumerate(_loop_names_in_order(lp)):
            out.append((f"loop {k + 1} update of variable #{i + 1}", lp.next[n]))
            out.append((f"loop {k + 1} initial value of variable #{i + 1}", lp.init[n]))
    return out


def _loop_shape(prog, q):
    """Labels of the loops of `q` that are genuine accumulations (position, number of carried names)."""
    return [l for l, _t in _loop_pieces(prog, q)]


def _loop_name_map(prog, ref_q, actual_q):
    """{(ref lid, ref name): (actual lid, actual name)} pairing loops and carried names by position."""
    m = {}
    la, lr = _loops_of(prog, actual_q), _loops_of(prog, ref_q)
    for a, r in zip(la, lr, strict=False):
        na, nr = _loop_names_in_order(prog.loops[a]), _loop_names_in_order(prog.loops[r])
        # identical names first (the common case), the rest by order of first binding
        same = [n for n in nr if n in na]
        for n in same:
            m[(r, n)] = (a, n)
        for x, y in zip([n for n in nr if n not in same], [n for n in na if n not in same], strict=False):
            m[(r, x)] = (a, y)
        # loop targets
        ta = [n for (lid_, n) in prog.loopvar_paths if lid_ == a]
        tr = [n for (lid_, n) in prog.loopvar_paths if lid_ == r]
        pa = {prog.loopvar_paths[(a, n)]: n for n in ta}
        for n in tr:
            path = prog.loopvar_paths[(r, n)]
            if path in pa:
                m[(r, n)] = (a, pa[path])
    return m


def compare(ctx: Ctx, actual_q: str, ref_name: str, what: str, *, decorated=False):
    prog = ctx.prog
    ensure_ref(prog)
    ref_q = f"{REF}.{ref_name}"
    key = f"KER:{actual_q.removeprefix('lcm.')}"
    actual_q = _relocated(prog, actual_q)
    if actual_q not in prog.funcs:
        ctx.undecided(key, f"function {actual_q} not found (anchor vanished)")
        return
    ia, ir = prog.funcs[actual_q], prog.funcs[ref_q]
    fa, fr = prog.frame(actual_q), prog.frame(ref_q)
    na_names, nr_names = param_names(ia.node), param_names(ir.node)
    where = prog.node_where(ia.module, ia.node)
    if len(na_names) != len(nr_names):
        ctx.undecided(key, f"{actual_q} takes {len(na_names)} parameters, reference {len(nr_names)}: signature changed", where)
        return
    if fa.unsupported:
        ctx.undecided(key, f"{actual_q} uses a statement outside the vocabulary ({fa.unsupported[0][0]})", where)
        return
    ctx.count("kernels")
    memo: dict = {}
    covered = covered_functions(prog)

    def _pre(full):
        def pre(x):
            x = comprehend(prog, prog.expand(x, skip=frozenset() if full else covered - {actual_q, ref_q}, loops=full))
            if full:
                x = canon_fn_tags(anon_fn(beta_partial(content(prog, x, 0, None, True))))
            return x
        return pre

    pres = {False: _pre(False), True: _pre(True)}

    def lc(x, full):
        return loop_content(prog, pres[full](x), 0, memo, (), pres[full])

    def from_ref(x, full):
        return _retarget(prog, _rename(lc(x, full), ref_q, actual_q, nr_names, na_names), ia.module)

    vocab = in_vocab(lc(fa.ret, False))

    def level(full):
        out = []
        ra_, rr_ = with_raise_domain(fa.ret, fa.raises), with_raise_domain(fr.ret, fr.raises)
        pa_, pr_ = canon_fn_guards(canon_bv(norm(undef_arms(lc(ra_, full))))), canon_fn_guards(canon_bv(norm(undef_arms(from_ref(rr_, full)))))
        a_, r_ = hoist(pa_), hoist(pr_)
        if a_ != r_:
            out.append(("result", a_, r_, pa_, pr_))
        ga = [(tuple(hoist(canon_bv(norm(lc(c, full)))) for c in conds if c[0] != "in-loop"), _exc_class(e)) for conds, e, _n in fa.raises]
        gr = [(tuple(hoist(canon_bv(norm(from_ref(c, full)))) for c in conds if c[0] != "in-loop"), _exc_class(e)) for conds, e, _n in fr.raises]
        if ga != gr and not guards_equivalent(ga, gr):
            out.append(("guards", tuple(ga), tuple(gr), tuple(ga), tuple(gr)))
        return out

    _judge(ctx, key, where, what, level, vocab, _loop_shape(prog, actual_q) != _loop_shape(prog, ref_q), fa.ret, "reference " + ref_name)
    if decorated:
        mfa = prog.module_frame(ia.module).env.get(ia.node.name)
        mfr = prog.module_frame(REF).env.get(ir.node.name)

        def strip(t, q):
            if not isinstance(t, tuple):
                return t
            if t == ("func", q):
                return ("func", "<f>")
            return tuple(strip(x, q) if isinstance(x, tuple) else x for x in t)

        da, dr = norm(strip(mfa, actual_q)), norm(strip(mfr, ref_q))
        ctx.ob(key + ":decorators", da == dr, where,
               f"{what}: decorators equal the reference" if da == dr else
               f"{what}: decorator differs: {first_difference(da, dr)}", lhs=mfa, rhs=mfr)


def _soft_verdict(ctx, prog, key, where, what, pa, pr, ga, gr, nf, nf_plain=None):
    """SOFT comparison: pieces are matched by equal normal form first, then by label; only
    atomic differences (constant / operator / library function / keyword / variable / dropped
    effect) on structurally identical pieces are reported.  Anything else: no verdict."""
    na = [(l, nf(t, False)) for l, t in pa]
    nr = [(l, nf(t, True)) for l, t in pr]
    na.append(("guards", tuple((tuple(nf(c, False) for c in conds if c[0] != "in-loop"), _exc_class(e)) for conds, e in ga)))
    nr.append(("guards", tuple((tuple(nf(c, True) for c in conds if c[0] != "in-loop"), _exc_class(e)) for conds, e in gr)))
    # the decision-tree normal form orders conditions canonically: one edited condition can reorder the whole
    # tree.  Atomic deviations are therefore also looked for on the forms *before* that reordering.
    plain_a, plain_r = {}, {}
    if nf_plain is not None:
        pl_a = [(l, nf_plain(t, False)) for l, t in pa]
        pl_r = [(l, nf_plain(t, True)) for l, t in pr]
        pl_a.append(("guards", tuple((tuple(nf_plain(c, False) for c in conds if c[0] != "in-loop"), _exc_class(e)) for conds, e in ga)))
        pl_r.append(("guards", tuple((tuple(nf_plain(c, True) for c in conds if c[0] != "in-loop"), _exc_class(e)) for conds, e in gr)))
        plain_a = {id(x[1]): y[1] for x, y in zip(na, pl_a, strict=True)}
        plain_r = {id(x[1]): y[1] for x, y in zip(nr, pl_r, strict=True)}
    used = set()
    pairs = []
    rest_a = []
    for l, a in na:
        j = next((j for j, (_l2, r) in enumerate(nr) if j not in used and r == a), None)
        if j is None:
            rest_a.append((l, a))
        else:
            used.add(j)
    rest_r = [(l, r) for j, (l, r) in enumerate(nr) if j not in used]
    by_label = {}
    for l, r in rest_r:
        by_label.setdefault(_kind_of(l), []).append((l, r))
    diffs, structural = [], 0
    for l, a in rest_a:
        cands = by_label.get(_kind_of(l), [])
        best = None
        for i, (l2, r) in enumerate(cands):
            d = atomic_diffs(a, r, l)
            if d is None and id(a) in plain_a and id(r) in plain_r:
                d = atomic_diffs(plain_a[id(a)], plain_r[id(r)], l)
            if d is not None and (best is None or len(d) < len(best[1])):
                best = (i, d)
        if best is None:
            structural += 1
        else:
            cands.pop(best[0])
            diffs += best[1]
    leftover = sum(len(v) for v in by_label.values())
    if not rest_a and not leftover:
        ctx.ob(key, True, where, f"{what}: equal to the reviewed form (all {len(na)} pieces)", lhs="", rhs="")
    elif structural or (leftover and not diffs):
        ctx.count("restructured_not_compared")
        ctx.ob(key, True, where, f"{what}: written differently from the reviewed form ({structural + leftover} pieces restructured); "
               "no conclusion is drawn from the comparison -- the dataflow obligations decide", nontrivial=False)
    elif all(x.startswith("~") for x in diffs):
        ctx.count("restructured_not_compared")
        ctx.ob(key, True, where, f"{what}: differs from the reviewed form only by type conversions; no conclusion is drawn", nontrivial=False)
    else:
        uniq = list(dict.fromkeys(x.lstrip("~") for x in diffs))
        ctx.ob(key, False, where, f"{what}: same structure as the reviewed form but {len(uniq)} atomic deviation(s): " + "; ".join(uniq[:4]),
               lhs="; ".join(uniq[:8]), rhs="reviewed form")


def _kind_of(label):
    import re

    return re.sub(r"#\d+|\d+", "#", label)


def _exc_class(t):
    if t[0] == "call":
        n = callee_name(t) or (t[1][1] if t[1][0] in ("class",) else repr(t[1][:2]))
    elif t[0] in ("glob", "class"):
        n = t[1]
    else:
        n = repr(t[:2])
    return n.rsplit(".", 1)[-1]


def _short_q(q):
    """Qualified name without the module part (lcm.<mod>. / lcmref.<file>.)."""
    parts = q.split(".")
    if parts[0] == "lcmref":
        parts = parts[2:]
    else:
        # drop leading package/module components: everything before the first function/class name
        while len(parts) > 1 and parts[0] in ("lcm", "input_processing") or (len(parts) > 1 and parts[0].islower() and parts[1] not in ("<locals>",) and _is_module_part(parts[0])):
            parts = parts[1:]
    out = ".".join(parts)
    # reference methods are written Class__meth
    return out


_MODULE_PARTS = None


def _is_module_part(name):
    return name in _MODULE_PARTS if _MODULE_PARTS is not None else False


def reify_closures(prog, t, depth=0):
    """('closure', q, id) -> ('closure', parent, ordinal, captured values): two closures are
    equal iff they come from the same place and captured equal values."""
    if not isinstance(t, tuple):
        return t
    if is_term(t) and t[0] == "closure" and len(t) == 3 and isinstance(t[2], int):
        cid = t[2]
        info, snapshot, _conds = prog.closures[cid]
        cap = ()
        if depth < 3:
            free = _free_names(info.node)
            cap = tuple(sorted(
                (("cap", reify_closures(prog, snapshot[n], depth + 1)) for n in free
                 if n in snapshot and n != info.node.name),
                key=repr))
        return ("closure", _closure_path(prog, info), cap)
    return tuple(reify_closures(prog, x, depth) if isinstance(x, tuple) else x for x in t)


def _same_instance(prog, a, b):
    return True


def _closure_path(prog, info):
    """(top-level function short name, ordinals of the nested defs along the nesting)."""
    path = []
    cur = info
    while cur is not None and cur.parent is not None:
        path.append(_def_ordinal(prog, cur))
        cur = prog.funcs.get(cur.parent)
    top = cur.qualname if cur is not None else ""
    return (_short_q(top), tuple(reversed(path)))


def norm_safe(t):
    return t


def _def_ordinal(prog, info):
    """Position of the nested def among the nested defs of its parent (source order)."""
    pinfo = prog.funcs.get(info.parent)
    if pinfo is None:
        return 0
    k = 0
    for n in ast.walk(pinfo.node):
        if isinstance(n, (ast.FunctionDef, ast.AsyncFunctionDef)) and n is not pinfo.node:
            if n is info.node:
                return k
            if getattr(n, "_lcmsa_q", "") and prog.funcs.get(n._lcmsa_q) is not None and prog.funcs[n._lcmsa_q].parent == pinfo.qualname:  # noqa: SLF001
                k += 1
    return k


def _free_names(fnode):
    a = fnode.args
    bound = {x.arg for x in a.posonlyargs + a.args + a.kwonlyargs}
    if a.vararg:
        bound.add(a.vararg.arg)
    if a.kwarg:
        bound.add(a.kwarg.arg)
    loads = set()
    for n in ast.walk(fnode):
        if isinstance(n, ast.Name):
            if isinstance(n.ctx, ast.Load):
                loads.add(n.id)
            else:
                bound.add(n.id)
    return sorted(loads - bound)


# ---------------------------------------------------------------------------------------
# loops that only build a list / dict  ==  comprehensions
# ---------------------------------------------------------------------------------------


def _shift_bv(t, by):
    if not isinstance(t, tuple):
        return t
    if is_term(t) and t[0] == "bv" and len(t) == 3:
        return ("bv", t[1] + by, t[2])
    return tuple(_shift_bv(x, by) if isinstance(x, tuple) else x for x in t)


def _loop_as_comp(prog, lid, name):
    """If the loop only appends to / sets items of ``name``: (kind, elt, gens, init) else None."""
    lp = prog.loops.get(lid)
    if lp is None:
        return None
    nxt, init = lp.next.get(name), lp.init.get(name)
    carried = ("carried", lid, name)
    if nxt is None or init is None or init == ("undef",):
        return None
    conds = []
    cur = nxt
    while cur[0] in ("phi", "ifexp"):
        if cur[3] == carried:
            conds.append(cur[1])
            cur = cur[2]
        elif cur[2] == carried:
            conds.append(("unop", "not", cur[1]))
            cur = cur[3]
        else:
            return None
    if cur[0] == "mut" and cur[2] == "append" and cur[1] == carried and len(cur[3]) == 1 and not cur[4]:
        kind, elt = "list", cur[3][0]
    elif cur[0] == "setitem" and cur[1] == carried:
        kind, elt = "dict", (cur[2], cur[3])
    else:
        return None
    body = (elt, tuple(conds))
    # no dependence on anything carried by this loop (an accumulation is not a comprehension)
    if any(is_term(x) and x[0] == "carried" and x[1] == lid for x in walk(body)):
        return None
    # loop variables -> bound variables of the comprehension
    paths = sorted(((path, n) for (l2, n), path in prog.loopvar_paths.items() if l2 == lid), key=lambda pn: pn[0])
    if not paths or any(len(p) > 1 for p, _n in paths):
        return None
    from lcmsa.core import _UNIQ

    _UNIQ[0] += 1
    mapping = {("loopvar", lid, n): ("bv", f"c{_UNIQ[0]}", i) for i, (_p, n) in enumerate(paths)}
    target = mapping[("loopvar", lid, paths[0][1])] if paths[0][0] == () else ("tuple", tuple(mapping[("loopvar", lid, n)] for _p, n in paths))

    def sub(t):
        if not isinstance(t, tuple):
            return t
        if is_term(t) and t in mapping:
            return mapping[t]
        return tuple(sub(x) if isinstance(x, tuple) else x for x in t)

    # inner loops first: their tables refer to this loop's variables, which become bound variables below
    elt = tuple(comprehend(prog, e, 1) for e in elt) if kind == "dict" else comprehend(prog, elt, 1)
    conds = [comprehend(prog, c, 1) for c in conds]
    elt2 = sub(elt)
    conds2 = tuple(sub(c) for c in conds)
    return kind, elt2, ((target, lp.iter, conds2),), init


def comprehend(prog, t, depth=0):
    """Replace after-loop values of pure list/dict building loops by the equivalent comprehension."""
    if depth == 0:
        r = _comprehend(prog, t, 1)
        return canon_bv(r) if r != t else t
    return _comprehend(prog, t, depth)


def _comprehend(prog, t, depth=0):
    if not isinstance(t, tuple) or depth > 40:
        return t
    if is_term(t) and t[0] == "loopout" and len(t) == 3:
        r = _loop_as_comp(prog, t[1], t[2])
        if r is not None:
            kind, elt, gens, init = r
            comp = ("comp", kind, comprehend(prog, elt, depth + 1), tuple(
                (tg, comprehend(prog, it, depth + 1), tuple(comprehend(prog, c, depth + 1) for c in cs)) for tg, it, cs in gens))
            init = comprehend(prog, init, depth + 1)
            if kind == "list":
                return comp if init == ("list", ()) else ("binop", "+", init, ("call", ("glob", "builtins.list"), (comp,), ()))
            return comp if init == ("dict", ()) else ("binop", "|", init, comp)
    return tuple(comprehend(prog, x, depth) if isinstance(x, tuple) else x for x in t)


# ---------------------------------------------------------------------------------------
# lambda-lifted content form: a closure and `partial(module_function, captured...)` are one value
# ---------------------------------------------------------------------------------------

_META_ATTRS = {"__name__", "__doc__", "__qualname__"}


def _sig_of(node):
    a = node.args
    out = [("pos", x.arg) for x in a.posonlyargs] + [("arg", x.arg) for x in a.args]
    if a.vararg:
        out.append(("var", a.vararg.arg))
    out += [("kwonly", x.arg) for x in a.kwonlyargs]
    if a.kwarg:
        out.append(("kw", a.kwarg.arg))
    n_def = len(a.defaults)
    defaults = {}
    pos = a.posonlyargs + a.args
    for x, d in zip(pos[len(pos) - n_def:], a.defaults, strict=True):
        defaults[x.arg] = ast.dump(d)
    for x, d in zip(a.kwonlyargs, a.kw_defaults, strict=True):
        if d is not None:
            defaults[x.arg] = ast.dump(d)
    return tuple((k, n, defaults.get(n)) for k, n in out)


def _has_loop_terms(t):
    return any(is_term(x) and x[0] in ("loopvar", "carried", "loopout") and not str(x[1]).startswith("#") for x in walk(t))


def anon_fn(t):
    """Positional parameters of function values by position, not by name (a renamed parameter of a helper
    that is passed around as a value is the same function for positional callers)."""
    if not isinstance(t, tuple):
        return t
    t = tuple(anon_fn(x) if isinstance(x, tuple) else x for x in t)
    if is_term(t) and t[0] == "fn" and len(t) == 5:
        tagname = None
        for x in walk(t[2:]):
            if x[0] == "param" and isinstance(x[1], str) and x[1].startswith("#fn"):
                tagname = x[1] if tagname is None else min(tagname, x[1])
        m, sig = {}, []
        for i, (kind, name, default) in enumerate(t[1]):
            if kind in ("pos", "arg", "var", "kw") and not str(name).startswith("#p"):
                new = f"#p{i}"
                if tagname is not None:
                    m[("param", tagname, name)] = ("param", tagname, new)
                sig.append((kind, new, default))
            else:
                sig.append((kind, name, default))
        return ("fn", tuple(sig), *_subst_params(t[2:], m))
    return t


def canon_fn_tags(t):
    """The tag that ties a function value's parameters to it is renumbered by nesting level (it was assigned by
    recursion depth when the value was built, which changes when a call layer is reduced away)."""
    # terms share sub-terms massively after inlining: every pass is memoised on object identity (the originals are
    # kept alive in `keep`), otherwise the walk is exponential in the nesting depth of shared values
    memo_go: dict = {}
    memo_fin: dict = {}
    keep: list = []

    def go(x, level):
        if not isinstance(x, tuple):
            return x
        k = (id(x), level)
        if k in memo_go:
            return memo_go[k]
        if is_term(x) and x[0] == "fn" and len(x) == 5:
            tags = sorted({y[1] for y in walk(x[2:]) if y[0] == "param" and isinstance(y[1], str) and y[1].startswith("#fn")})
            body = x[2:]
            if tags:
                own, new = tags[0], f"#Fn{level}"
                body = _retag(body, own, new)
            r = ("fn", x[1], *(go(b, level + 1) for b in body))
        else:
            r = tuple(go(y, level) if isinstance(y, tuple) else y for y in x)
        keep.append(x)
        memo_go[k] = r
        return r

    def fin(x):
        if not isinstance(x, tuple):
            return x
        k = id(x)
        if k in memo_fin:
            return memo_fin[k]
        if is_term(x) and x[0] == "param" and isinstance(x[1], str) and x[1].startswith("#Fn"):
            r = ("param", "#fn" + x[1][3:], *x[2:])
        else:
            r = tuple(fin(y) if isinstance(y, tuple) else y for y in x)
        keep.append(x)
        memo_fin[k] = r
        return r

    return fin(go(t, 0))


def _retag(t, old, new, _memo=None):
    if not isinstance(t, tuple):
        return t
    memo = {} if _memo is None else _memo
    k = id(t)
    if k in memo:
        return memo[k][1]
    if is_term(t) and t[0] == "param" and t[1] == old:
        r = ("param", new, *t[2:])
    else:
        r = tuple(_retag(x, old, new, memo) if isinstance(x, tuple) else x for x in t)
        if r == t:
            r = t  # unchanged sub-terms stay shared
    memo[k] = (t, r)  # keeps t alive while its id is a key
    return r


def content(prog, t, depth=0, covered=None, every=False):
    """Replace function values by what they compute: ('lambda', signature, result, effects, guards).

    Closures (captured names already replaced by the captured values) and module-level lcm helpers
    without a reviewed form of their own are treated alike, so that lifting a closure to module level
    and binding its former free variables with `functools.partial` yields the same normal form."""
    covered = covered if covered is not None else covered_functions(prog)
    if not isinstance(t, tuple):
        return t
    if is_term(t) and t[0] in ("closure", "func") and depth < 4:
        fr = info = None
        if t[0] == "closure" and len(t) == 3 and isinstance(t[2], int):
            info = prog.closures[t[2]][0]
            fr = prog.closure_frame(t[2])
        elif t[0] == "func" and len(t) == 2 and t[1] in prog.funcs and (every or t[1] not in covered) \
                and t[1].startswith(("lcm.", "lcmref.")) and prog.funcs[t[1]].parent is None and prog.funcs[t[1]].cls is None:
            info = prog.funcs[t[1]]
            fr = prog.frame(t[1])
        decorated = None
        if fr is not None and t[0] == "func" and info.node.decorator_list and not every:
            fr = None
        # ('func', q) always denotes the RAW function: a reference to a decorated name is built by the front end as
        # decorator(...)(('func', q)), so no decorator is added here
        if fr is not None and not fr.unsupported and fr.ret is not None:
            q = info.qualname
            tag = f"#fn{depth}"

            def lower(x):
                x = prog.expand(x, skip=frozenset() if every else covered, loops=every)
                x = comprehend(prog, x)
                x = content(prog, x, depth + 1, covered, every)
                return _reparam(x, q, tag)

            ret = lower(fr.ret)
            eff = tuple(lower(e) for _c, e, _n in fr.effects if not _is_logging(e) and not _is_append_to_local(e, fr))
            guards = tuple((tuple(lower(c) for c in conds if c[0] != "in-loop"), _exc_class(e)) for conds, e, _n in fr.raises)
            if not _has_loop_terms((ret, eff, guards)):
                fn = ("fn", _sig_of(info.node), ret, ("tuple", eff), guards)
                if decorated is not None:
                    # the module-level name denotes the decorated function
                    return _subst_params_any(content(prog, _mask_func(decorated, q), depth + 1, covered, every), {("func", "<this function>"): fn})
                return fn
        return t
    if is_term(t) and t[0] == "call" and len(t) == 4 and is_term(t[1]) and t[1][0] == "func" and not every:
        # a function that is CALLED here is not a function value: it stays a call (inlined by expand where possible)
        return ("call", t[1], *(content(prog, x, depth, covered, every) for x in t[2:]))
    return tuple(content(prog, x, depth, covered, every) if isinstance(x, tuple) else x for x in t)


def _reparam(t, q, tag):
    if not isinstance(t, tuple):
        return t
    if is_term(t) and t[0] == "param" and t[1] == q:
        return ("param", tag, t[2])
    return tuple(_reparam(x, q, tag) if isinstance(x, tuple) else x for x in t)


def beta_partial(t):
    """partial(<lambda>, *pos, **kws): bind the parameters (beta reduction); decorator call forms unified;
    metadata-only attribute stores (`f.__name__ = ...`) dropped."""
    if not isinstance(t, tuple):
        return t
    t = tuple(beta_partial(x) if isinstance(x, tuple) else x for x in t)
    if not is_term(t):
        return t
    if t[0] == "setattr" and len(t) == 4 and t[2] in _META_ATTRS:
        return t[1]
    if t[0] == "call" and any(is_term(a) and a[0] == "star" and is_term(a[1]) and a[1][0] in ("tuple", "list")
                              and all(x[0] != "star" for x in a[1][1]) for a in t[2]):
        # f(*(a, b)) == f(a, b)
        flat = []
        for a in t[2]:
            if is_term(a) and a[0] == "star" and is_term(a[1]) and a[1][0] in ("tuple", "list") and all(x[0] != "star" for x in a[1][1]):
                flat.extend(a[1][1])
            else:
                flat.append(a)
        return beta_partial(("call", t[1], tuple(flat), t[3]))
    if t[0] == "call" and callee_name(t) == "functools.update_wrapper" and len(t[2]) == 2 and not t[3]:
        # update_wrapper(w, f) returns w with f's metadata  ==  wraps(f)(w)
        return beta_partial(("call", ("call", ("glob", "functools.wraps"), (t[2][1],), ()), (t[2][0],), ()))
    if t[0] == "call" and is_term(t[1]) and t[1][0] == "call" and callee_name(t[1]) == "dags.signature.with_signature" \
            and len(t[2]) == 1 and is_term(t[2][0]) and t[2][0][0] == "call" and is_term(t[2][0][1]) and t[2][0][1][0] == "call" \
            and callee_name(t[2][0][1]) == "functools.wraps" and len(t[2][0][2]) == 1:
        # with_signature(args=A)(wraps(g)(F)): with_signature sets the signature itself and copies only the name
        return ("call", t[1], (t[2][0][2][0],), t[3])
    if t[0] == "call" and callee_name(t) == "dags.signature.with_signature" and len(t[2]) == 1:
        # with_signature(f, args=A) == with_signature(args=A)(f)
        return beta_partial(("call", ("call", t[1], (), t[3]), (t[2][0],), ()))
    if t[0] == "call" and is_term(t[1]) and t[1][0] == "fn" and len(t[1]) == 5 and t[1][3] == ("tuple", ()) and not t[1][4] \
            and all(k is not None for k, _ in t[3]) and not any(is_term(a) and a[0] == "star" for a in t[2]):
        # calling a function value directly: beta reduction (parameters := arguments)
        lam = t[1]
        sig = list(lam[1])
        tagname = None
        for x in walk(lam[2:]):
            if x[0] == "param" and isinstance(x[1], str) and x[1].startswith("#fn"):
                tagname = x[1] if tagname is None else min(tagname, x[1])
        pos_params = [e for e in sig if e[0] in ("pos", "arg")]
        binding, ok = {}, len(t[2]) <= len(pos_params)
        if ok:
            for e, v in zip(pos_params, t[2], strict=False):
                binding[e[1]] = v
            for k, v in t[3]:
                e = next((e for e in sig if e[1] == k and e[0] in ("arg", "kwonly")), None)
                if e is None or k in binding:
                    ok = False
                    break
                binding[k] = v
        unbound = [e for e in sig if e[0] in ("pos", "arg", "kwonly") and e[1] not in binding and e[2] is None]
        if ok and not unbound and not any(e[0] in ("var", "kw") for e in sig) and not any(e[2] is not None and e[1] not in binding for e in sig):
            m = {("param", tagname, k): v for k, v in binding.items()} if tagname is not None else {}
            return beta_partial(_subst_params(lam[2], m))
    if t[0] == "call" and callee_name(t) == "functools.partial" and t[2] and is_term(t[2][0]) and t[2][0][0] == "fn" \
            and len(t[2][0]) == 5 and all(k is not None for k, _ in t[3]):
        lam = t[2][0]
        sig = list(lam[1])
        tagname = None
        for x in walk(lam[2:]):
            if x[0] == "param" and isinstance(x[1], str) and x[1].startswith("#fn"):
                tagname = x[1] if tagname is None else min(tagname, x[1])
        binding = {}
        pos_params = [e for e in sig if e[0] in ("pos", "arg")]
        if len(t[2]) - 1 > len(pos_params):
            return t
        for e, v in zip(pos_params, t[2][1:], strict=False):
            binding[e[1]] = v
            sig.remove(e)
        for k, v in t[3]:
            e = next((e for e in sig if e[1] == k and e[0] in ("arg", "kwonly")), None)
            if e is None:
                return t
            binding[k] = v
            sig.remove(e)
        if tagname is None and binding:
            tagname = "#fn?"
        m = {("param", tagname, k): v for k, v in binding.items()}
        body = _subst_params(lam[2:], m)
        return ("fn", tuple(sig), *body)
    return t


def _subst_params(t, m):
    if not isinstance(t, tuple):
        return t
    if is_term(t) and t[0] == "param" and t in m:
        return m[t]
    return tuple(_subst_params(x, m) if isinstance(x, tuple) else x for x in t)


# ---------------------------------------------------------------------------------------
# loops by content: a loop result is (iterable, initial values, updates) of the names it depends on
# ---------------------------------------------------------------------------------------


def loop_content(prog, t, depth=0, memo=None, stack=(), pre=None):
    """('loopout', lid, name) -> ('fold', iterable, ((init, update), ...)) over the dependency closure of `name`.

    Self references become positional (`('carried', '#L<depth>', k)`, `('loopvar', '#L<depth>', path)`), so the
    form does not depend on where the loop stands, on the names of its variables, on unrelated variables that
    the same loop also updates (loop fission/fusion) or on the function the loop was moved to.
    Loops that only build a list/dict are turned into comprehensions first (`comprehend`)."""
    memo = memo if memo is not None else {}
    if not isinstance(t, tuple) or depth > 6:
        return t
    if is_term(t) and t[0] in ("loopout", "carried", "loopvar") and len(t) == 3 and isinstance(t[1], str) and t[1] in prog.loops:
        if t[1] in stack:
            return t  # reference to an enclosing loop under construction: made positional by its builder
        if t[0] == "loopout":
            r = _fold_of(prog, t[1], t[2], depth, memo, stack, pre)
            return r if r is not None else t
        if t[0] == "carried":
            r = _fold_of(prog, t[1], t[2], depth, memo, stack, pre)
            return ("loopstate", r) if r is not None else t
        lp = prog.loops[t[1]]
        path = prog.loopvar_paths.get((t[1], t[2]), t[2])
        return ("loopvar", "#it", path, loop_content(prog, comprehend(prog, pre(lp.iter) if pre else lp.iter), depth + 1, memo, stack, pre))
    if is_term(t) and t[0] == "call" and callee_name(t) == "functools.reduce" and len(t[2]) == 3 and not t[3] \
            and is_term(t[2][0]) and t[2][0][0] == "fn" and len(t[2][0]) == 5:
        # functools.reduce(f, xs, init)  ==  acc = init; for x in xs: acc = f(acc, x)
        fn, xs, init = t[2]
        pos = [e for e in fn[1] if e[0] in ("pos", "arg")]
        tagname = next((x[1] for x in walk(fn[2]) if x[0] == "param" and isinstance(x[1], str) and x[1].startswith("#fn")), None)
        if len(pos) == 2 and len(fn[1]) == 2 and fn[3] == ("tuple", ()) and not fn[4] and tagname is not None:
            tag = f"#L{depth}"
            m = {("param", tagname, pos[0][1]): ("carried", tag, 0), ("param", tagname, pos[1][1]): ("loopvar", tag, ())}
            body = loop_content(prog, _subst_params(fn[2], m), depth + 1, memo, stack, pre)
            return ("fold", loop_content(prog, xs, depth + 1, memo, stack, pre),
                    ((loop_content(prog, init, depth + 1, memo, stack, pre), body),))
    return tuple(loop_content(prog, x, depth, memo, stack, pre) if isinstance(x, tuple) else x for x in t)


def _fold_of(prog, lid, name, depth, memo, stack, pre=None):
    key = (lid, name, depth, stack, id(pre))
    if key in memo:
        return memo[key]
    lp = prog.loops[lid]
    if name not in lp.next:
        return None
    tag = f"#L{depth}"
    inner = (*stack, lid)

    def deep(x):
        return loop_content(prog, comprehend(prog, pre(x) if pre else x), depth + 1, memo, inner, pre)

    order, nexts, i = [name], {}, 0
    while i < len(order):
        d = order[i]
        i += 1
        if d not in lp.next:
            memo[key] = None
            return None
        nexts[d] = deep(lp.next[d])
        for x in walk(nexts[d]):
            if x[0] == "carried" and len(x) == 3 and x[1] == lid and x[2] not in order:
                order.append(x[2])
    idx = {d: k for k, d in enumerate(order)}

    def sub(x):
        if not isinstance(x, tuple):
            return x
        if is_term(x) and x[0] == "carried" and len(x) == 3 and x[1] == lid and x[2] in idx:
            return ("carried", tag, idx[x[2]])
        if is_term(x) and x[0] == "loopvar" and len(x) == 3 and x[1] == lid:
            return ("loopvar", tag, prog.loopvar_paths.get((lid, x[2]), x[2]))
        return tuple(sub(y) if isinstance(y, tuple) else y for y in x)

    parts = tuple((sub(deep(lp.init.get(d, ("undef",)))), sub(nexts[d])) for d in order)
    r = _fuse_fold(("fold", sub(loop_content(prog, comprehend(prog, pre(lp.iter) if pre else lp.iter), depth + 1, memo, stack, pre)), parts), tag)
    memo[key] = r
    return r


def _fuse_fold(r, tag):
    """fold over `[f(x) for x in X]`  ==  fold over X with the element computed inside the body."""
    while True:
        it = r[1]
        if not (is_term(it) and it[0] == "comp" and it[1] in ("list", "gen") and len(it) == 4 and len(it[3]) == 1 and not it[3][0][2]):
            return r
        tg, src, _c = it[3][0]
        if is_term(tg) and tg[0] == "bv":
            back = {tg: ("loopvar", tag, ())}
        elif is_term(tg) and tg[0] == "tuple" and all(is_term(b) and b[0] == "bv" for b in tg[1]):
            back = {b: ("loopvar", tag, (i,)) for i, b in enumerate(tg[1])}
        else:
            return r
        if any(x[0] == "loopvar" and x[1] == tag and x[2] != () for x in walk(r[2])):
            return r  # the body unpacks the element: keep
        elt = _subst_params_any(it[2], back)
        body = _subst_params_any(r[2], {("loopvar", tag, ()): elt})
        r = ("fold", src, body)


def _subst_params_any(t, m):
    if not isinstance(t, tuple):
        return t
    if is_term(t) and t in m:
        return m[t]
    return tuple(_subst_params_any(x, m) if isinstance(x, tuple) else x for x in t)


def fuse_comps(t):
    """for (a, b) in (f(x) for x in X)  ==  for x in X with a := f(x)[0], b := f(x)[1]."""
    if not isinstance(t, tuple):
        return t
    t = tuple(fuse_comps(x) if isinstance(x, tuple) else x for x in t)
    if is_term(t) and t[0] == "comp" and len(t) == 4 and len(t[3]) == 1:
        tg, it, conds = t[3][0]
        if is_term(it) and it[0] == "call" and is_term(it[1]) and it[1][0] == "attr" and it[1][2] == "items" and not it[2] and not it[3] \
                and is_term(it[1][1]) and it[1][1][0] == "comp" and it[1][1][1] == "dict" and len(it[1][1][3]) == 1 and not it[1][1][3][0][2]:
            # for k, v in {K: V for x in X}.items()  ==  for x in X with k := K, v := V   (keys distinct: a renaming)
            d = it[1][1]
            it = ("comp", "gen", ("tuple", (d[2][0], d[2][1])), d[3])
        if is_term(it) and it[0] == "comp" and it[1] in ("gen", "list") and len(it[3]) == 1 and not it[3][0][2]:
            inner_elt = it[2]
            mapping = {}
            if is_term(tg) and tg[0] == "bv":
                mapping[tg] = inner_elt
            elif is_term(tg) and tg[0] == "tuple" and all(x[0] == "bv" for x in tg[1]):
                for i, b in enumerate(tg[1]):
                    if is_term(inner_elt) and inner_elt[0] == "tuple" and len(inner_elt[1]) == len(tg[1]):
                        mapping[b] = inner_elt[1][i]
                    else:
                        mapping[b] = ("sub", inner_elt, ("const", i))
            if mapping:
                def sub(x):
                    if not isinstance(x, tuple):
                        return x
                    if is_term(x) and x in mapping:
                        return mapping[x]
                    return tuple(sub(y) if isinstance(y, tuple) else y for y in x)

                elt = tuple(sub(e) for e in t[2]) if t[1] == "dict" else sub(t[2])
                return ("comp", t[1], elt, ((it[3][0][0], it[3][0][1], tuple(sub(c) for c in conds)),))
    return t


def resort_caps(t):
    """Captured values of reified closures in a canonical order (after all renamings)."""
    if not isinstance(t, tuple):
        return t
    t = tuple(resort_caps(x) if isinstance(x, tuple) else x for x in t)
    if len(t) == 3 and t[0] == "closure" and isinstance(t[2], tuple) and all(isinstance(c, tuple) and c and c[0] == "cap" for c in t[2]):
        return ("closure", t[1], tuple(sorted(t[2], key=repr)))
    return t


def strip_messages(t):
    """Error-message texts are not behaviour: replace them by a placeholder."""
    if not isinstance(t, tuple):
        return t
    if is_term(t):
        if t[0] == "mut" and t[2] == "append" and len(t[3]) == 1 and _is_text(t[3][0]):
            return ("mut", strip_messages(t[1]), "append", (("msg",),), t[4])
        if t[0] == "call" and _is_exception(t[1]):
            return ("call", t[1], (("msg",),) if t[2] else (), ())
    return tuple(strip_messages(x) if isinstance(x, tuple) else x for x in t)


def _is_text(t):
    if t[0] == "const" and isinstance(t[1], str):
        return True
    if t[0] == "fstr":
        return True
    if t[0] == "binop" and t[1] == "+":
        return _is_text(t[2]) or _is_text(t[3])
    if t[0] == "tuple":
        return all(_is_text(x) for x in t[1])
    return False


def _is_exception(f):
    name = f[1] if f[0] in ("glob", "class") else ""
    return name.endswith("Error") or name.endswith("Exception")


def compare_factory(ctx: Ctx, actual_q: str, ref_name: str, what: str, *, soft: bool = False):
    """Factory + the closures it defines, paired in definition order."""
    prog = ctx.prog
    ensure_ref(prog)
    ref_q = ref_name if ref_name.startswith("lcmref.") else f"{REF}.{ref_name}"
    key = f"KER:{actual_q.removeprefix('lcm.')}"
    actual_q = _relocated(prog, actual_q)
    if actual_q not in prog.funcs:
        ctx.undecided(key, f"function {actual_q} not found (anchor vanished)")
        return
    ia, ir = prog.funcs[actual_q], prog.funcs[ref_q]
    fa, fr = prog.frame(actual_q), prog.frame(ref_q)
    where = prog.node_where(ia.module, ia.node)
    ca = sorted(c for cs in fa.closures.values() for c in cs)
    cr = sorted(c for cs in fr.closures.values() for c in cs)
    na_names, nr_names = param_names(ia.node), param_names(ir.node)
    if len(ca) != len(cr) and len(na_names) == len(nr_names) and not fa.unsupported:
        # nested functions were lifted out (or in): compare what the factory returns, with every function value
        # replaced by what it computes.  Equality proves agreement; a difference proves nothing here.
        if _lifted_equal(prog, fa, fr, ia, ir, actual_q, ref_q):
            ctx.count("kernels")
            ctx.ob(key, True, where, f"{what}: equals the reference form after lambda lifting (closures and "
                   "`partial(module function, captured values)` have one normal form)", lhs=fa.ret, rhs="reference " + ref_name)
            return
    if len(ca) != len(cr) or len(na_names) != len(nr_names) or fa.unsupported:
        if soft:
            ctx.count("restructured_not_compared")
            ctx.count("kernels")
            ctx.ob(key, True, where, f"{what}: signature or nested functions differ from the reviewed form "
                   f"({len(ca)} closures, {len(na_names)} parameters); no conclusion is drawn from the comparison", nontrivial=False)
        else:
            ctx.undecided(key, f"{actual_q}: shape of the factory changed ({len(ca)} closures, {len(na_names)} parameters)", where)
        return
    mapping = {}
    qmap = {ref_q: actual_q}
    for a, b in zip(_all_params(ir.node), _all_params(ia.node), strict=False):
        mapping[("param", ref_q, a)] = ("param", actual_q, b)
    for x, y in zip(cr, ca, strict=True):
        qx, qy = prog.closures[x][0], prog.closures[y][0]
        qmap[qx.qualname] = qy.qualname
        for a, b in zip(_all_params(qx.node), _all_params(qy.node), strict=False):
            mapping[("param", qx.qualname, a)] = ("param", qy.qualname, b)
    idx_a = {c: i for i, c in enumerate(ca)}
    idx_r = {c: i for i, c in enumerate(cr)}
    lmap = {}
    for rq, aq in qmap.items():
        lmap.update(_loop_name_map(prog, rq, aq))

    def canon(t, idx, is_ref):
        if not isinstance(t, tuple):
            return t
        if is_term(t) and t[0] == "param" and t in mapping:
            return mapping[t]
        if is_ref and is_term(t) and t[0] in ("loopvar", "carried", "loopout") and isinstance(t[1], str):
            if (t[1], t[2]) in lmap:
                a_lid, a_name = lmap[(t[1], t[2])]
                return (t[0], a_lid, a_name)
            q, _, rest = t[1].partition(":")
            if q in qmap:
                return (t[0], f"{qmap[q]}:{rest}", *t[2:])
        return tuple(canon(x, idx, is_ref) if isinstance(x, tuple) else x for x in t)

    lc_memo: dict = {}

    def _pre(full):
        def pre(x):
            x = prog.expand(x, skip=frozenset() if full else covered_functions(prog), loops=full)
            if full:
                x = canon_fn_tags(anon_fn(beta_partial(content(prog, comprehend(prog, x), 0, None, True))))
            else:
                # closures by what they compute (captured values substituted), not by where they are defined
                x = canon_fn_tags(beta_partial(content(prog, comprehend(prog, x), 0, None, False)))
            return x
        return pre

    pre_plain, pre_full = _pre(False), _pre(True)

    def prep(t, idx, is_ref, full=False):
        # helpers that have a reviewed form of their own stay opaque (they are compared separately); any other
        # helper (e.g. one that a refactoring extracted) is inlined.  full: every helper is inlined, also those
        # with loops (used when the first comparison fails: code may have moved across reviewed helpers)
        # full: function VALUES (helpers passed to vmap, partial, ...) by what they compute, whatever they are called
        pre_f = pre_full if full else pre_plain
        t = pre_f(t)
        # closures that could not be represented by content: (definition site, captured values); the captured values
        # then go through the same passes as everything else
        t = pre_f(reify_closures(prog, t))
        t = canon_bv(fuse_comps(canon_bv(loop_content(prog, comprehend(prog, canon_bv(t)), 0, lc_memo, (), pre_f))))
        t = strip_messages(canon(t, idx, is_ref))
        return resort_caps(_retarget(prog, t, ia.module) if is_ref else t)

    def side_effects(frame, q):
        """Expression statements (calls executed for their effect) and in-place changes of parameters."""
        out = []
        eff = tuple(t for conds, t, _n in frame.effects if not _is_logging(t) and not _is_append_to_local(t, frame))
        out.append(("effect statements", ("tuple", eff)))
        for pname in frame.params:
            v = frame.env.get(pname)
            if v is not None and v != ("param", q, pname) and any(x[0] in ("setattr", "setitem", "mut") for x in walk(v)):
                out.append((f"in-place update of parameter #{frame.params.index(pname) + 1}", v))
        return out

    def pieces(frame, q, closures, tag, info):
        out = [("factory result", with_raise_domain(frame.ret, frame.raises))]  # loops are part of the result (loop_content)
        out += [(f"factory {l}", t) for l, t in side_effects(frame, q)]
        if info.parent is None and info.cls is None and info.node.decorator_list:
            dec = prog.module_frame(info.module).env.get(info.node.name)
            if dec is not None:
                out.append(("decorators", _mask_func(dec, q)))
        guards = [(conds, e) for conds, e, _n in frame.raises]
        for i, c in enumerate(closures):
            cf = prog.closure_frame(c)
            cq = prog.closures[c][0].qualname
            if content(prog, ("closure", cq, c), 0, None, False)[0] == "fn":
                continue  # compared as part of the value it is used in (closures by content)
            out.append((f"closure {i + 1} result", cf.ret))
            out += [(f"closure {i + 1} {l}", t) for l, t in side_effects(cf, cq)]
            guards += [(conds, e) for conds, e, _n in cf.raises]
        return out, guards

    pa, ga = pieces(fa, actual_q, ca, "a", ia)
    pr, gr = pieces(fr, ref_q, cr, "r", ir)
    ctx.count("kernels")
    if soft:
        _soft_verdict(ctx, prog, key, where, what, pa, pr, ga, gr,
                      lambda t, is_ref: hoist(canon_fn_guards(canon_bv(norm(undef_arms(prep(t, idx_a if not is_ref else idx_r, is_ref)))))),
                      lambda t, is_ref: canon_fn_guards(canon_bv(norm(undef_arms(prep(t, idx_a if not is_ref else idx_r, is_ref))))))
        return
    if [l for l, _ in pa] != [l for l, _ in pr]:
        ctx.undecided(key, f"{what}: number of nested functions differs from the reference", where)
        return
    vocab = all(in_vocab(prep(ta, idx_a, False)) for _l, ta in pa)

    def level(full):
        """[(label, hoisted a, hoisted r, plain a, plain r)] for the pieces that differ at this inlining level."""
        out = []
        for (label, ta), (_l, tr) in zip(pa, pr, strict=True):
            pa_, pr_ = canon_fn_guards(canon_bv(norm(undef_arms(prep(ta, idx_a, False, full))))), canon_fn_guards(canon_bv(norm(undef_arms(prep(tr, idx_r, True, full)))))
            a_, r_ = hoist(pa_), hoist(pr_)
            if a_ != r_:
                out.append((label, a_, r_, pa_, pr_))
        na_g = [(tuple(hoist(canon_bv(norm(prep(c, idx_a, False, full)))) for c in conds if c[0] != "in-loop"), _exc_class(e)) for conds, e in ga]
        nr_g = [(tuple(hoist(canon_bv(norm(prep(c, idx_r, True, full)))) for c in conds if c[0] != "in-loop"), _exc_class(e)) for conds, e in gr]
        if na_g != nr_g and not guards_equivalent(na_g, nr_g):
            out.append(("guards", tuple(na_g), tuple(nr_g), tuple(na_g), tuple(nr_g)))
        return out

    shape_a = [_loop_shape(prog, actual_q)] + [_loop_shape(prog, prog.closures[c][0].qualname) for c in ca]
    shape_r = [_loop_shape(prog, ref_q)] + [_loop_shape(prog, prog.closures[c][0].qualname) for c in cr]
    _judge(ctx, key, where, what, level, vocab, shape_a != shape_r, fa.ret, "reference " + ref_name)


LOCAL_EDIT = 30


class _BudgetExceeded(Exception):
    pass


def _with_budget(prog, fn, seconds=None):
    """Run fn() under a CPU-time budget (a comparison whose normal forms explode is not decided, instead of blocking the
    check).  Uses SIGVTALRM, so it only arms in the main thread; half-finished cache entries are dropped afterwards."""
    import os
    import signal
    import threading

    seconds = float(os.environ.get("LCMSA_KER_BUDGET", "600")) if seconds is None else seconds
    if threading.current_thread() is not threading.main_thread() or not hasattr(signal, "setitimer"):
        return fn()

    def on_alarm(_sig, _frm):
        raise _BudgetExceeded

    # CPU time of this process, not wall-clock time: the verdict must not depend on how busy the machine is
    old = signal.signal(signal.SIGVTALRM, on_alarm)
    signal.setitimer(signal.ITIMER_VIRTUAL, seconds)
    try:
        return fn()
    except _BudgetExceeded:
        cache = getattr(prog, "_inline_cache", None)
        if isinstance(cache, dict):
            for k in [k for k, v in cache.items() if v is None or v == ("unknown", "recursion")]:
                cache.pop(k, None)
        raise
    finally:
        signal.setitimer(signal.ITIMER_VIRTUAL, 0)
        signal.signal(signal.SIGVTALRM, old)


def _judge(ctx, key, where, what, level, vocab, loops_restructured, lhs, rhs):
    try:
        return _with_budget(ctx.prog, lambda: _judge_unbounded(ctx, key, where, what, level, vocab, loops_restructured, lhs, rhs))
    except _BudgetExceeded:
        ctx.undecided(key, f"{what}: the comparison with the reference form exceeded its time budget (the normal forms of the "
                      "changed code grow too large): not decided", where)


def _judge_unbounded(ctx, key, where, what, level, vocab, loops_restructured, lhs, rhs):
    """Verdict of a comparison with a reviewed form.

    equal normal forms (helpers with a reviewed form opaque)            -> PROVED
    equal after inlining every helper on both sides                      -> PROVED
    all deviations atomic, or the unshared part of the two forms is at
    most LOCAL_EDIT nodes (a slip: wrong variable, dropped operand, ...) -> REFUTED
    anything else (the code was written differently)                     -> UNDECIDED
    """
    d1 = level(False)
    if not d1:
        ctx.ob(key, True, where, f"{what}: function, closures, effects and guards equal the reference form", lhs=lhs, rhs=rhs)
        return
    try:
        d2 = level(True)
    except (AnalysisError, RecursionError):
        d2 = d1
    if not d2:
        ctx.ob(key, True, where, f"{what}: equals the reference form once the helpers are inlined on both sides", lhs=lhs, rhs=rhs)
        return
    if not vocab:
        ctx.undecided(key, f"{what}: differs from the reference form ({d1[0][0]}) but uses constructs outside the vocabulary", where)
        return

    def measure(ds):
        atoms, cost = [], 0
        sides = [0, 0]
        for label, a_, r_, pa_, pr_ in ds:
            d = atomic_diffs(a_, r_, label)
            if d is None:
                d = atomic_diffs(pa_, pr_, label)
            atoms.append(d)
            c = min(local_cost2(a_, r_), local_cost2(pa_, pr_), key=sum)
            cost += sum(c)
            sides[0] += c[0]
            sides[1] += c[1]
        measure.sides[id(ds)] = tuple(sides)
        return atoms, cost

    measure.sides = {}

    (at1, c1), (at2, c2) = measure(d1), measure(d2)
    sides = measure.sides.get(id(d1 if c1 <= c2 else d2), (0, 0))
    one_sided = min(sides) == 0 and max(sides) > 0  # one form occurs unchanged inside the other: something was added / dropped
    import os

    if os.environ.get("LCMSA_DEBUG_JUDGE"):
        for nm, ds, c in (("L1", d1, c1), ("L2", d2, c2)):
            if os.environ.get("LCMSA_DEBUG_JUDGE") == "2":
                for lab, a, r, _x, _y in ds:
                    print("FORM-A", nm, lab, a)
                    print("FORM-R", nm, lab, r)
            print("JUDGE", key, nm, "cost", c, "sides", measure.sides.get(id(ds)), [(lab, first_difference(a, r, lab)[:300]) for lab, a, r, _x, _y in ds])
    ds, atoms, cost = (d1, at1, c1) if c1 <= c2 else (d2, at2, c2)
    label, a_, r_, _pa, _pr = ds[0]
    first = first_difference(a_, r_, label)
    if all(d is not None for d in atoms) and all(x.startswith("~") for d in atoms for x in d):
        uniq = list(dict.fromkeys(x[1:] for d in atoms for x in d))
        ctx.undecided(key, f"{what}: differs from the reference form only by type conversions ({'; '.join(uniq[:3])}); whether they "
                      "matter depends on the type of the value: not decided by comparison", where)
        return
    if all(d is not None for d in atoms):
        uniq = list(dict.fromkeys(x.lstrip("~") for d in atoms for x in d))
        ctx.ob(key, False, where, f"{what}: same structure as the reference form but {len(uniq)} atomic deviation(s): " + "; ".join(uniq[:4]),
               lhs=_short(a_), rhs=_short(r_))
    elif (cost <= LOCAL_EDIT or (one_sided and cost <= 2 * LOCAL_EDIT)) and not loops_restructured:
        how = ("an operation was " + ("added to" if sides[0] else "dropped from") + " the reviewed computation; ") if one_sided else ""
        ctx.ob(key, False, where, f"{what}: deviates locally from the reference form ({how}{cost} unshared nodes; first at {first})",
               lhs=_short(a_), rhs=_short(r_))
    else:
        ctx.undecided(key, f"{what}: written differently from the reference form ({cost} unshared nodes{', loops restructured' if loops_restructured else ''}; "
                      f"first difference at {first}): not decided by comparison", where)


def _lifted_equal(prog, fa, fr, ia, ir, actual_q, ref_q):
    mapping = {("param", ref_q, a): ("param", actual_q, b)
               for a, b in zip(_all_params(ir.node), _all_params(ia.node), strict=False)}
    covered = covered_functions(prog)
    lc_memo: dict = {}

    def form(frame, q, is_ref):
        eff = tuple(t for _c, t, _n in frame.effects if not _is_logging(t) and not _is_append_to_local(t, frame))
        guards = tuple((tuple(c for c in conds if c[0] != "in-loop"), _exc_class(e)) for conds, e, _n in frame.raises)
        t = ("tuple", (frame.ret, ("tuple", eff)))

        def low(x):
            x = prog.expand(x, skip=covered)
            x = beta_partial(content(prog, comprehend(prog, x), 0, covered))
            x = canon_bv(fuse_comps(loop_content(prog, x, 0, lc_memo)))
            x = strip_messages(_subst_params(x, mapping) if is_ref else x)
            if is_ref:
                x = _retarget(prog, x, ia.module)
            return hoist(norm(x))

        return low(t), tuple((tuple(low(c) for c in cs), e) for cs, e in guards)

    try:
        a, ga = form(fa, actual_q, False)
        r, gr = form(fr, ref_q, True)
    except (AnalysisError, RecursionError):
        return False
    import os

    if os.environ.get("LCMSA_DEBUG_LIFT"):
        print("LIFT", _has_loop_terms(a), any(x[0] == "closure" for x in walk(a)), a == r, ga == gr, first_difference(a, r, "lifted"))
    if _has_loop_terms(a) or any(x[0] == "closure" for x in walk(a)):
        return False
    return a == r and (ga == gr or guards_equivalent(list(ga), list(gr)))


def diff_sites(a, b):
    """(number of minimal differing sub-term sites, total size of the differing sub-terms)."""
    if a == b:
        return 0, 0
    if isinstance(a, tuple) and isinstance(b, tuple) and len(a) == len(b) and len(a) > 0 and \
            (not isinstance(a[0], str) or a[0] == b[0]):
        n = sz = 0
        for x, y in zip(a, b, strict=True):
            if x != y:
                k, s_ = diff_sites(x, y) if isinstance(x, tuple) and isinstance(y, tuple) else (1, 1)
                n += k
                sz += s_
        return n, sz
    return 1, max(_size(a), _size(b))


def site_sizes(a, b, out=None):
    """[(size of the actual sub-term, size of the reference sub-term)] for every minimal differing site."""
    out = [] if out is None else out
    if a == b:
        return out
    if isinstance(a, tuple) and isinstance(b, tuple) and len(a) == len(b) and len(a) > 0 and \
            (not isinstance(a[0], str) or a[0] == b[0]):
        for x, y in zip(a, b, strict=True):
            if x != y:
                if isinstance(x, tuple) and isinstance(y, tuple):
                    site_sizes(x, y, out)
                else:
                    out.append((_size(x), _size(y)))
        return out
    out.append((_size(a), _size(b)))
    return out


def edit_cost(a, b, _memo=None):
    """Number of term nodes that have to be deleted/inserted to turn `a` into `b`: children of the same
    construct are aligned (longest common subsequence on equality, then position-wise), a term that
    occurs unchanged inside its counterpart (a wrapper added or removed) costs only the wrapper."""
    memo = _memo if _memo is not None else {}
    if a == b:
        return 0
    if not isinstance(a, tuple) or not isinstance(b, tuple):
        return _size(a) + _size(b) if (isinstance(a, tuple) or isinstance(b, tuple)) else 1
    key = (id(a), id(b))
    if key in memo:
        return memo[key]
    sa, sb = _size(a), _size(b)
    best = sa + sb
    # wrapper added / removed
    if sa < sb and _contains(b, a):
        best = min(best, sb - sa)
    elif sb < sa and _contains(a, b):
        best = min(best, sa - sb)
    same_head = len(a) > 0 and len(b) > 0 and (not isinstance(a[0], str) or a[0] == b[0]) and \
        (isinstance(a[0], str) == isinstance(b[0], str))
    if same_head and best > 1:
        xs, ys = list(a), list(b)
        if len(xs) == len(ys):
            c = 0
            for x, y in zip(xs, ys, strict=True):
                if x != y:
                    c += edit_cost(x, y, memo)
                    if c >= best:
                        break
            best = min(best, c)
        else:
            # align equal children (LCS), pair the rest in order, the surplus is inserted/deleted
            n, m = len(xs), len(ys)
            if n * m <= 4000:
                L = [[0] * (m + 1) for _ in range(n + 1)]
                for i in range(n - 1, -1, -1):
                    for j in range(m - 1, -1, -1):
                        L[i][j] = L[i + 1][j + 1] + 1 if xs[i] == ys[j] else max(L[i + 1][j], L[i][j + 1])
                i = j = 0
                ra, rb = [], []
                while i < n and j < m:
                    if xs[i] == ys[j]:
                        i += 1
                        j += 1
                    elif L[i + 1][j] >= L[i][j + 1]:
                        ra.append(xs[i])
                        i += 1
                    else:
                        rb.append(ys[j])
                        j += 1
                ra += xs[i:]
                rb += ys[j:]
                c = 0
                for x, y in zip(ra, rb, strict=False):
                    c += edit_cost(x, y, memo)
                for x in ra[len(rb):]:
                    c += _size(x)
                for y in rb[len(ra):]:
                    c += _size(y)
                best = min(best, c)
    memo[key] = best
    return best


def _contains(big, small):
    if big == small:
        return True
    if not isinstance(big, tuple):
        return False
    return any(_contains(x, small) for x in big if isinstance(x, tuple))


def _size(t):
    if not isinstance(t, tuple):
        return 1
    return 1 + sum(_size(x) for x in t)


_VALUE_OPS = {"astype", "round", "clip", "floor", "ceil", "abs", "squeeze", "flatten", "ravel", "cumsum", "sort", "flip",
              "asarray", "array", "nan_to_num", "trunc", "rint", "negative", "exp", "log", "sqrt", "square"}
LEAF_TAGS = {"const", "param", "glob", "func", "class", "bv", "loopvar", "carried", "loopout", "qsel", "msg"}


def atomic_diffs(a, b, path="", out=None):
    """Differences of two normal forms that are *atomic*: a constant, an operator, a library
    function, a keyword of a call, a variable.  Returns the list, or None if the two forms
    differ structurally somewhere (different construct / arity): then nothing is concluded."""
    out = [] if out is None else out
    if a == b:
        return out
    ta, tb = is_term(a), is_term(b)
    if ta and tb and "reshape(shape)" in path and (a == ("const", -1) or b == ("const", -1)):
        # -1 in a reshape stands for "the size that fits": an explicit size in its place cannot be judged here
        out.append(f"~{path}: an inferred dimension (-1) against an explicit one")
        return out
    if ta and tb:
        if a[0] in LEAF_TAGS and b[0] in LEAF_TAGS:
            out.append(f"{path}: {_short(a)} instead of {_short(b)}")
            return out
        # the value passed through jnp.asarray / jnp.array (a plain conversion): whether it matters depends on its type
        for x, y, word in ((a, b, "is additionally passed through"), (b, a, "is no longer passed through")):
            if x[0] == "op" and len(x) == 5 and x[1] == "array" and (
                    (len(x[3]) == 1 and not x[2] and x[3][0] == y) or (not x[3] and len(x[2]) == 1 and x[2][0][1] == y)):
                out.append(f"~{path}: the value {word} asarray/array(...)")
                return out
        # len(x) against x.shape[0]: the same number for an array with at least one axis, not defined for a list / a
        # 0-d array respectively -- depends on the type of x: no verdict from it
        for x, y in ((a, b), (b, a)):
            if x[0] == "call" and x[1] == ("glob", "builtins.len") and len(x[2]) == 1 and not x[3] \
                    and y[0] == "sub" and y[2] == ("const", 0) and is_term(y[1]) and y[1][0] == "attr" and y[1][2] == "shape" and y[1][1] == x[2][0]:
                out.append(f"~{path}: len(x) against x.shape[0]")
                return out
        # an explicit broadcast_to against the implicit broadcasting of the operation that consumes the value: whether
        # the two agree depends on the shapes of the other operands -- no verdict from it
        for x, y, word in ((a, b, "is explicitly broadcast"), (b, a, "is no longer explicitly broadcast")):
            if x[0] == "op" and len(x) == 5 and x[1] == "broadcast_to" and x[2] and x[2][0][1] == y:
                out.append(f"~{path}: the value {word} (broadcast_to)")
                return out
        # the reviewed value wrapped in a value-changing operation (cast, rounding, clipping, ...)
        def _unconverted(v):
            # asarray(v) / array(v): the same numbers
            while is_term(v) and v[0] == "op" and len(v) == 5 and v[1] in ("asarray", "array") and (len(v[3]) == 1 or dict(v[2]).get("a") is not None):
                v = v[3][0] if len(v[3]) == 1 else dict(v[2])["a"]
            return v

        for x, y, word in ((a, b, "is additionally transformed by"), (b, a, "is no longer transformed by")):
            if x[0] == "op" and len(x) == 5 and x[1] in _VALUE_OPS and _unconverted(dict(x[2]).get("a")) == _unconverted(y) \
                    and dict(x[2]).get("a") is not None:
                out.append(f"{path}: the value {word} {x[1]}")
                return out
        # the reviewed value wrapped in / stripped of a one-argument call: tuple(x) vs x, set(x) vs x
        for x, y, word in ((a, b, "is additionally passed through"), (b, a, "is no longer passed through")):
            if x[0] == "call" and len(x) == 4 and len(x[2]) == 1 and not x[3] and x[2][0] == y and x[1][0] == "glob":
                if x[1][1] in _CONVERSIONS and not (x[1][1] == "builtins.tuple" and is_term(y) and y[0] == "comp" and y[1] == "gen"):
                    # whether a plain type conversion matters depends on the type of the value: no verdict from it
                    out.append(f"~{path}: the value {word} {x[1][1]}(...)")
                    return out
                out.append(f"{path}: the value {word} {x[1][1]}(...)")
                return out
        # a comparison operator against a library predicate over the same operands: a == b vs isclose(a, b)
        for x, y in ((a, b), (b, a)):
            if x[0] == "op" and len(x) == 5 and y[0] == "cmp" and len(y[1]) == 1 and len(y[2]) == 2 and not x[3] and not x[4] \
                    and sorted(map(repr, (v for _k, v in x[2]))) == sorted(map(repr, y[2])):
                out.append(f"{path}: {x[1]}(...) {'instead of' if x is a else 'replaced by'} the comparison {y[1][0]}")
                return out
        # `x | y` (normal form: ordered merge) against `x & y` (normal form: commutative and)
        if {a[0], b[0]} == {"bar", "op"} and sorted(map(repr, _merge_leaves(a))) == sorted(map(repr, _merge_leaves(b))) \
                and len(_merge_leaves(a)) > 1:
            out.append(f"{path}: operator {'|' if b[0] == 'op' else '&'} instead of {'&' if b[0] == 'op' else '|'}")
            return out
        # a mapping re-keyed in the order of another sequence: {k: D[k] for k in K} against D
        for x, y, word in ((a, b, "is additionally re-keyed"), (b, a, "is no longer re-keyed")):
            if x[0] == "comp" and len(x) == 4 and x[1] == "dict" and len(x[3]) == 1 and not x[3][0][2] and is_term(x[3][0][0]) \
                    and x[3][0][0][0] == "bv" and x[2][0] == x[3][0][0] and is_term(x[2][1]) and x[2][1][0] == "sub" \
                    and x[2][1][2] == x[3][0][0] and canon_bv(x[2][1][1]) == canon_bv(y):
                out.append(f"~{path}: the mapping {word} in the order of {_short(x[3][0][1])}: whether that changes the key order "
                           "depends on the order the mapping already has")
                return out
        # the reviewed sequence re-ordered: sorted(x, key=...) / reversed(x) against x
        for x, y, word in ((a, b, "is additionally re-ordered by"), (b, a, "is no longer re-ordered by")):
            if x[0] == "call" and len(x) == 4 and x[1] in (("glob", "builtins.sorted"), ("glob", "builtins.reversed")) \
                    and len(x[2]) == 1 and x[2][0] == y:
                out.append(f"{path}: the sequence {word} {x[1][1].split('.')[-1]}(...)")
                return out
        # x.m() against x  (e.g. d.values() where the reviewed form iterates d)
        for x, y, word in ((a, b, "additionally goes through"), (b, a, "no longer goes through")):
            if x[0] == "call" and len(x) == 4 and not x[2] and not x[3] and x[1][0] == "attr" and x[1][1] == y:
                out.append(f"{path}: the value {word} .{x[1][2]}()")
                return out
        # an in-place update whose normal form is a merge (update / |=) replaced by another in-place method
        for x, y in ((a, b), (b, a)):
            if x[0] == "mut" and len(x) == 5 and y[0] in ("bar", "cat") and y[1] and y[1][0] == x[1]:
                out.append(f"{path}: in-place method .{x[2]}() {'instead of' if x is a else 'replaced by'} a merge/extend")
                return out
        # a negated condition / swapped branches
        if a == ("not", b) or b == ("not", a) or a == ("unop", "not", b) or b == ("unop", "not", a):
            out.append(f"{path}: condition negated")
            return out
        if a[0] != b[0]:
            return None
        if a[0] in ("if", "ifnone") and len(a) == 4 and a[1] == b[1] and a[2] == b[3] and a[3] == b[2]:
            out.append(f"{path}: the two branches of a condition are swapped (condition negated)")
            return out
        if a[0] == "op" and b[0] == "op" and len(a) == 3 and len(b) == 3 and a[1] == b[1] and len(a[2]) == len(b[2]):
            # commutative n-ary form (operands sorted): pair equal operands first, the rest in order
            ra = [x for x in a[2] if x not in b[2]]
            rb = [y for y in b[2] if y not in a[2]]
            if len(ra) == len(rb):
                for x, y in zip(ra, rb, strict=True):
                    if atomic_diffs(x, y, f"{path}.{a[1]}", out) is None:
                        return None
                return out
            return None
        if a[0] == "op" and len(a) == 5 and len(b) == 5:
            if a[1] != b[1]:
                out.append(f"{path}: operation {a[1]} instead of {b[1]}")
                return out if (a[2:] == b[2:] or atomic_diffs(a[2:], b[2:], path + "." + a[1], []) is not None) else None
            da, db = dict(a[2]), dict(b[2])
            for k in sorted(set(da) | set(db)):
                if k not in da:
                    out.append(f"{path}.{a[1]}: argument {k}= is missing")
                elif k not in db:
                    out.append(f"{path}.{a[1]}: extra argument {k}=")
                elif atomic_diffs(da[k], db[k], f"{path}.{a[1]}({k})", out) is None:
                    return None
            if atomic_diffs(a[3], b[3], path + "." + a[1], out) is None or atomic_diffs(a[4], b[4], path + "." + a[1], out) is None:
                return None
            return out
        if a[0] == "call" and len(a) == 4 and len(b) == 4:
            if atomic_diffs(a[1], b[1], path + "/callee", out) is None or atomic_diffs(a[2], b[2], path + "/args", out) is None:
                return None
            ka, kb = dict((k, v) for k, v in a[3] if k is not None), dict((k, v) for k, v in b[3] if k is not None)
            name = (a[1][1] if a[1][0] in ("glob", "func", "class") else "call").rsplit(".", 1)[-1]
            for k in sorted(set(ka) | set(kb)):
                if k not in ka:
                    out.append(f"{path}/{name}: keyword {k}= is missing")
                elif k not in kb:
                    out.append(f"{path}/{name}: extra keyword {k}=")
                elif atomic_diffs(ka[k], kb[k], f"{path}/{name}({k})", out) is None:
                    return None
            sa, sb = [v for k, v in a[3] if k is None], [v for k, v in b[3] if k is None]
            if len(sa) != len(sb):
                out.append(f"{path}/{name}: {len(sa)} ** arguments instead of {len(sb)}")
                return out
            for x, y in zip(sa, sb, strict=True):
                if atomic_diffs(x, y, f"{path}/{name}(**)", out) is None:
                    return None
            return out
        if a[0] in ("cmp", "binop", "unop", "boolop") and len(a) == len(b) and a[1] != b[1]:
            out.append(f"{path}: operator {a[1]} instead of {b[1]}")
            return out if atomic_diffs(a[2:], b[2:], path, out) is not None else None
        if a[0] == "tuple" and len(a) == 2 and len(b) == 2 and path.endswith("effect statements") and len(a[1]) < len(b[1]):
            # effect statements: a dropped call
            it = iter(b[1])
            if all(any(x == y for y in it) for x in a[1]):
                out.append(f"{path}: {len(b[1]) - len(a[1])} effect statement(s) of the reviewed form are missing")
                return out
            return None
        if a[0] == "poly" and b[0] == "poly":
            atoms_a = {x for mono, _c in a[1] for x, _p in mono}
            atoms_b = {x for mono, _c in b[1] for x, _p in mono}
            if atoms_a != atoms_b and len(a[1]) == len(b[1]) and all(
                    ca == cb and len(ma) == len(mb) and all(pa == pb for (_x, pa), (_y, pb) in zip(ma, mb, strict=True))
                    for (ma, ca), (mb, cb) in zip(a[1], b[1], strict=True)):
                # the same arithmetic over operands that differ: descend into the operands
                for (ma, _ca), (mb, _cb) in zip(a[1], b[1], strict=True):
                    for (xa, _pa), (xb, _pb) in zip(ma, mb, strict=True):
                        if xa != xb and atomic_diffs(xa, xb, path + "/operand", out) is None:
                            return None
                return out
            if (atoms_a != atoms_b or len(a[1]) != len(b[1])) and not all(_numeric_atom(x) for x in atoms_a | atoms_b):
                return None  # operands that need not be numbers (containers, strings): `-`/`+` may be set or sequence algebra
            if atoms_a != atoms_b or len(a[1]) != len(b[1]):
                # polynomials over numeric operands: the normal form is canonical for ring identities, so different
                # normal forms are different functions of their operands
                out.append(f"{path}: arithmetic differs (another polynomial in the operands)")
                return out
            out.append(f"{path}: arithmetic differs (same operands, other coefficients / signs / powers)")
            return out
    if isinstance(a, tuple) and isinstance(b, tuple):
        if len(a) != len(b):
            return None
        if path.endswith("/args") and not ta and len(a) > 1 and sorted(map(repr, a)) == sorted(map(repr, b)):
            out.append(f"{path}: positional arguments permuted")
            return out
        for i, (x, y) in enumerate(zip(a, b, strict=True)):
            if x == y:
                continue
            if isinstance(x, tuple) and isinstance(y, tuple):
                tag = a[0] if ta and isinstance(a[0], str) else ""
                if atomic_diffs(x, y, f"{path}/{tag}" if tag else path, out) is None:
                    return None
            elif isinstance(x, tuple) or isinstance(y, tuple):
                return None
            else:
                out.append(f"{path}: {x!r} instead of {y!r}")
        return out
    out.append(f"{path}: {a!r} instead of {b!r}")
    return out


_CONVERSIONS = {"builtins.bool", "builtins.dict", "builtins.list", "builtins.tuple", "builtins.int", "builtins.float",
                "builtins.str", "builtins.iter", "copy.copy", "jax.numpy.asarray", "numpy.asarray", "jax.numpy.array", "numpy.array"}


def _numeric_atom(x):
    """Could this operand of `+ - * /` be anything but a number / array?  Containers, strings and their builders: yes."""
    if not is_term(x):
        return False
    if x[0] in ("list", "tuple", "set", "dict", "comp", "bar", "cat", "rep", "fstr", "seq"):
        return False
    if x[0] == "const":
        return isinstance(x[1], (int, float, bool)) or x[1] in ("inf", "-inf")
    if x[0] == "call":
        name = callee_name(x) or ""
        return not name.startswith("builtins.") or name in ("builtins.len", "builtins.int", "builtins.float", "builtins.abs",
                                                             "builtins.sum", "builtins.min", "builtins.max", "builtins.round")
    return True


def _merge_leaves(t):
    """Operands of a (possibly nested) chain of `|` (normal form 'bar') and `&` (normal form op/and)."""
    if is_term(t) and t[0] == "bar" and len(t) == 2:
        return [z for x in t[1] for z in _merge_leaves(x)]
    if is_term(t) and t[0] == "op" and len(t) == 3 and t[1] == "and":
        return [z for x in t[2] for z in _merge_leaves(x)]
    return [t]


def _local_difference(n_sites, size):
    """A deviation that looks like an edit (few small sites), not like a restructuring.
    One textual edit of the source shows up at every place the edited value was inlined, so
    the number of sites is generous; the size bound separates edits from rewrites."""
    return n_sites <= 40 and size <= 400


def _is_logging(t):
    """Statements outside the compared behaviour: logging calls, and `assert` statements (a statement of belief that
    `python -O` removes; an assert can only stop a run loudly, never change a result)."""
    return t[0] == "call" and t[1][0] == "attr" and t[1][2] in ("info", "debug", "warning", "error", "setLevel") \
        or callee_name(t) in ("logging.basicConfig", "builtins.assert")


def _is_append_to_local(t, frame):
    """Mutating method calls on locals are already part of the value graph (mut nodes)."""
    from lcmsa.core import _MUTATORS

    return t[0] == "call" and t[1][0] == "attr" and t[1][2] in _MUTATORS


def _mask_func(t, q):
    if not isinstance(t, tuple):
        return t
    if t == ("func", q):
        return ("func", "<this function>")
    return tuple(_mask_func(x, q) if isinstance(x, tuple) else x for x in t)


def _atoms(c, out):
    if is_term(c) and c[0] == "not" and len(c) == 2:
        _atoms(c[1], out)
    elif is_term(c) and c[0] == "unop" and c[1] == "not":
        _atoms(c[2], out)
    elif is_term(c) and c[0] == "boolop":
        for x in c[2]:
            _atoms(x, out)
    elif is_term(c) and c[0] == "cmp" and c[1] == ("!=",):
        out.add(("cmp", ("==",), c[2]))
    elif is_term(c) and c[0] == "cmp" and len(c[1]) == 1 and c[1][0] in _ORDER_OPS and len(c[2]) == 2:
        # order comparisons of one pair of operands: two atoms (less, equal), mutually exclusive
        out.add(("cmp", ("<",), c[2]))
        out.add(("cmp", ("==",), c[2]))
    else:
        out.add(c)


_ORDER_OPS = ("<", "<=", ">", ">=")


def _ev(c, val):
    if is_term(c) and c[0] == "cmp" and len(c[1]) == 1 and c[1][0] in _ORDER_OPS and len(c[2]) == 2:
        lt, eq = val[("cmp", ("<",), c[2])], val[("cmp", ("==",), c[2])]
        return {"<": lt, "<=": lt or eq, ">": not lt and not eq, ">=": not lt}[c[1][0]]
    if is_term(c) and c[0] == "not" and len(c) == 2:
        return not _ev(c[1], val)
    if is_term(c) and c[0] == "unop" and c[1] == "not":
        return not _ev(c[2], val)
    if is_term(c) and c[0] == "boolop":
        vs = [_ev(x, val) for x in c[2]]
        return all(vs) if c[1] == "and" else any(vs)
    if is_term(c) and c[0] == "cmp" and c[1] == ("!=",):
        return not val[("cmp", ("==",), c[2])]
    return val[c]


def guards_equivalent(ga, gb):
    """Two lists of (conditions, exception class) raise the same exception for every truth
    assignment of their atomic conditions (x == K1 and x == K2 with K1 != K2 are exclusive)."""
    import itertools

    atoms = set()
    for g in (ga, gb):
        for conds, _e in g:
            for c in conds:
                _atoms(c, atoms)
    atoms = sorted(atoms, key=repr)
    if len(atoms) > 10:
        return False
    excl = []
    for i, a in enumerate(atoms):
        for b in atoms[i + 1:]:
            if a[0] == "cmp" and b[0] == "cmp" and a[2] == b[2] and {a[1], b[1]} == {("<",), ("==",)}:
                excl.append((a, b))  # x < y and x == y
            if a[0] == "cmp" and b[0] == "cmp" and a[1] == b[1] == ("==",):
                xa, xb = set(a[2]), set(b[2])
                common = xa & xb
                if len(common) == 1 and len(xa) == 2 and len(xb) == 2:
                    ka, kb = next(iter(xa - common)), next(iter(xb - common))
                    if ka != kb and all(k[0] in ("const", "attr", "glob", "class") for k in (ka, kb)):
                        excl.append((a, b))

    def decide(g, val):
        for conds, e in g:
            if all(_ev(c, val) for c in conds):
                return e
        return None

    for bits in itertools.product([False, True], repeat=len(atoms)):
        val = dict(zip(atoms, bits, strict=True))
        if any(val[a] and val[b] for a, b in excl):
            continue
        if decide(ga, val) != decide(gb, val):
            return False
    return True


def _project_table(table, keep_after, removed):
    """Table with column `removed` dropped; `keep_after` are the remaining original column indices (sorted)."""
    cols = sorted([*keep_after, removed])
    out = {}
    for bits, val in table.items():
        out[tuple(b for j, b in zip(cols, bits, strict=True) if j != removed)] = val
    return out


def with_raise_domain(ret, raises):
    """The result of a function as a decision tree that is bottom where the function raises:
    if(g1, bottom, if(g2, bottom, ... result)).  Two functions that return the same values on the inputs they
    accept, but test their conditions in another order (`if a: return X; if not b: raise; return Y` against
    `if b: return Y; elif a: return X; else: raise`), then have one normal form once the conditions are ordered
    (alg.hoist) and the bottom arms are dropped (last)."""
    out = ret
    for conds, _e, _n in reversed(list(raises)):
        cs = [c for c in conds]
        if any(c[0] == "in-loop" for c in cs) or not cs:
            continue
        inner = ("bottom",)
        for c in reversed(cs):
            inner = ("phi", c, inner, out)
        out = inner
    return out


def undef_arms(t):
    """phi(c, X, <undef>): the variable is not assigned on that path because the path raises -> an explicit bottom
    arm, like the raising paths of structured returns (dropped after the conditions are ordered)."""
    if not isinstance(t, tuple):
        return t
    t = tuple(undef_arms(x) if isinstance(x, tuple) else x for x in t)
    if is_term(t) and t[0] in ("phi", "ifexp") and len(t) == 4:
        if t[2] == ("undef",):
            return (t[0], t[1], ("bottom",), t[3])
        if t[3] == ("undef",):
            return (t[0], t[1], t[2], ("bottom",))
    return t


def canon_fn_guards(t):
    """The guard list of every function value as a decision table over its atomic conditions
    (which exception class is raised for which truth assignment): two guard lists that decide alike are equal."""
    import itertools

    if not isinstance(t, tuple):
        return t
    t = tuple(canon_fn_guards(x) if isinstance(x, tuple) else x for x in t)
    if is_term(t) and t[0] == "fn" and len(t) == 5 and t[4] and not (is_term(t[4]) and t[4][0] == "gtable"):
        g = [(tuple(conds), e) for conds, e in t[4]]
        atoms = set()
        for conds, _e in g:
            for c in conds:
                _atoms(c, atoms)
        atoms = sorted(atoms, key=repr)
        if len(atoms) <= 10:
            excl = []
            for i, a in enumerate(atoms):
                for b in atoms[i + 1:]:
                    if a[0] == "cmp" and b[0] == "cmp" and a[2] == b[2] and {a[1], b[1]} == {("<",), ("==",)}:
                        excl.append((a, b))
            table = {}
            for bits in itertools.product([False, True], repeat=len(atoms)):
                val = dict(zip(atoms, bits, strict=True))
                if any(val[a] and val[b] for a, b in excl):
                    continue
                out = None
                for conds, e in g:
                    if all(_ev(c, val) for c in conds):
                        out = e
                        break
                table[bits] = out
            # drop atoms the decision does not depend on (e.g. `<` when only `!=` matters)
            keep = list(range(len(atoms)))
            changed = True
            while changed:
                changed = False
                for i in list(keep):
                    proj = {}
                    ok = True
                    for bits, out in table.items():
                        k = tuple(bits[j] for j in keep if j != i)
                        if k in proj and proj[k] != out:
                            ok = False
                            break
                        proj[k] = out
                    if ok:
                        keep.remove(i)
                        table = {tuple(b for j, b in zip(sorted(keep + [i]), bits, strict=True) if j != i): out
                                 for bits, out in table.items()} if False else _project_table(table, keep, i)
                        changed = True
                        break
            rows = tuple(sorted(table.items()))
            return (*t[:4], ("gtable", tuple(atoms[j] for j in keep), rows))
    return t


def _all_params(node):
    a = node.args
    out = [x.arg for x in a.posonlyargs + a.args]
    if a.vararg:
        out.append(a.vararg.arg)
    out += [x.arg for x in a.kwonlyargs]
    if a.kwarg:
        out.append(a.kwarg.arg)
    return out


def factory_rule(name, items, *, soft=False):
    @rule(name)
    def r(ctx: Ctx):
        for actual_q, ref_name, what in items:
            compare_factory(ctx, actual_q, ref_name, what, soft=soft)
        ctx.floor("kernels", len(items))

    r.kernel_items = [(a, b, c) for a, b, c in items]
    return r


def kernel_rule(name, items):
    @rule(name)
    def r(ctx: Ctx):
        for actual_q, ref_name, what, deco in items:
            compare_factory(ctx, actual_q, ref_name, what)
        ctx.floor("kernels", len(items))

    r.kernel_items = [(a, b, c) for a, b, c, _d in items]
    return r


ker_argmax = kernel_rule("KER.argmax", [
    ("lcm.argmax.argmax", "argmax", "masked arg-max (max, equality mask conjoined with the feasibility mask, first True)", False),
    ("lcm.argmax.segment_argmax", "segment_argmax", "segment arg-max (segment max, equality mask, largest matching row id)", False),
])
ker_discrete = kernel_rule("KER.discrete", [
    ("lcm.discrete_problem._solve_discrete_problem_no_shocks", "_solve_discrete_problem_no_shocks",
     "max over the dense choice axes, then segment max over the choice segments", False),
])
ker_logsumexp = kernel_rule("KER.logsumexp", [
    ("lcm.discrete_problem._segment_logsumexp", "_segment_logsumexp", "max-shifted segment log-sum-exp", False),
    ("lcm.discrete_problem._segment_extreme_value_emax_over_first_axis", "_segment_extreme_value_emax_over_first_axis",
     "scale * logsumexp(values / scale) over segments", False),
    ("lcm.discrete_problem._calculate_emax_extreme_value_shocks", "_calculate_emax_extreme_value_shocks",
     "scale * logsumexp(values / scale) over dense choice axes, then over segments", False),
])
ker_interp = kernel_rule("KER.interp", [
    ("lcm.ndimage._compute_indices_and_weights", "_compute_indices_and_weights",
     "lower index clipped to [0, size-2]; weights (1-w, w) with w = coordinate - lower index", False),
    ("lcm.ndimage._multiply_all", "_multiply_all", "product of the per-axis weights", False),
    ("lcm.ndimage._sum_all", "_sum_all", "sum of the weighted corner values", False),
    ("lcm.grid_helpers.get_linspace_coordinate", "get_linspace_coordinate", "(value - start) / step", False),
    ("lcm.grid_helpers.get_logspace_coordinate", "get_logspace_coordinate",
     "cell found in log space, position inside the cell linear in the value", False),
])
ker_grids = kernel_rule("KER.grids", [
    ("lcm.grid_helpers.linspace", "linspace", "jnp.linspace(start, stop, n_points)", False),
    ("lcm.grid_helpers.logspace", "logspace", "jnp.logspace(log start, log stop, n_points, base=e)", False),
])
ker_random = kernel_rule("KER.random", [
    ("lcm.random_choice.random_choice", "random_choice", "one sub-key per agent, split from the variable's key", False),
    ("lcm.random_choice._vmapped_random_choice", "_vmapped_random_choice",
     "jax.random.choice(key, a=labels, p=probs) mapped over keys and probability rows", True),
    ("lcm.simulate._generate_simulation_keys", "_generate_simulation_keys",
     "split into len(ids)+1 keys: first carried on, the others zipped with ids", False),
])
ker_simulate = kernel_rule("KER.simulate", [
    ("lcm.simulate.create_choice_segments", "create_choice_segments",
     "segment ids = agent coordinate of the (agent x choice-combination) rows that pass the mask", False),
    ("lcm.simulate.dict_product", "dict_product", "row-major product of the sparse choice grids", False),
    ("lcm.simulate.retrieve_non_sparse_choices", "retrieve_non_sparse_choices",
     "flat index -> per-variable index via unravel_index over the grid shape -> grid value", False),
])
ker_frame = kernel_rule("KER.frame", [
    ("lcm.simulate._as_data_frame", "_as_data_frame", "MultiIndex.from_product([periods, agents]) with level names", False),
])
ker_functools = kernel_rule("KER.functools", [
    ("lcm.functools.convert_kwargs_to_args", "convert_kwargs_to_args", "values ordered by position of their key in the parameter list", False),
    ("lcm.functools.all_as_kwargs", "all_as_kwargs", "positional values named by the leading arg_names, merged with kwargs", False),
    ("lcm.functools.all_as_args", "all_as_args", "args followed by kwargs converted in arg_names order", False),
])
ker_space = kernel_rule("KER.space", [
    ("lcm.state_space._create_value_grid", "_create_value_grid", "dense grids passed through unchanged, in grid order", False),
])

ker_statespace = factory_rule("KER.statespace", [
    ("lcm.state_space.create_filter_mask", "create_filter_mask",
     "filters combined with logical_and, evaluated on the product of the restricted grids in grid order"),
    ("lcm.state_space.create_combination_grid", "create_combination_grid",
     "row-major (indexing='ij') mesh of the restricted grids, masked"),
    ("lcm.state_space.create_indexers_and_segments", "create_indexers_and_segments",
     "ranks of feasible states, -1 fill, segment ids by rank"),
])
ker_routing = factory_rule("KER.routing", [
    ("lcm.input_processing.process_model._get_stochastic_weight_function", "_get_stochastic_weight_function",
     "weights = params['shocks'][state][dependency labels in signature order]"),
    ("lcm.input_processing.process_model._get_stochastic_next_function", "_get_stochastic_next_function",
     "stochastic next function replaced by 'all labels of the grid', signature preserved"),
    ("lcm.input_processing.process_model._replace_func_parameters_by_params", "_replace_func_parameters_by_params",
     "function receives params[<its own name>]"),
    ("lcm.input_processing.process_model._add_dummy_params_argument", "_add_dummy_params_argument",
     "params accepted and ignored"),
])
ker_nextstate = factory_rule("KER.nextstate", [
    ("lcm.next_state._get_stochastic_next_func", "_get_stochastic_next_func",
     "draw with the key of this next-function, the weight row and the state's own grid as labels"),
])
ker_weights = factory_rule("KER.weights", [
    ("lcm.model_functions.get_multiply_weights", "get_multiply_weights", "product of the per-variable weights over the product of nodes"),
])
ker_funcrep = factory_rule("KER.funcrep", [
    ("lcm.function_representation._get_label_translator", "_get_label_translator", "label -> position (identity)"),
    ("lcm.function_representation._get_lookup_function", "_get_lookup_function", "array[positions in axis order]"),
    ("lcm.function_representation._get_coordinate_finder", "_get_coordinate_finder", "grid.get_coordinate(value)"),
    ("lcm.function_representation._get_interpolator", "_get_interpolator", "map_coordinates(data, coordinates in axis order)"),
])


def gen(module, names):
    """Items for generated reference files: lcm.<module>.<name> vs lcmref.ref_<module>.<name>."""
    stem = "ref_" + module.replace(".", "_")
    out = []
    for n, what in names:
        if "." in n:
            cls, meth = n.split(".")
            ref = f"lcmref.{stem}.{cls}__{meth.strip('_')}"
        else:
            ref = f"lcmref.{stem}.{n}"
        out.append((f"lcm.{module}.{n}", ref, what))
    return out


ker_dispatchers = factory_rule("KER.dispatchers", gen("dispatchers", [
    ("_base_productmap", "iterated vmap in reverse order of the requested names; positions from the signature"),
    ("vmap_1d", "one vmap with in_axes 0 for exactly the requested names"),
    ("productmap", "product map with preserved signature, keyword-only call"),
    ("spacemap", "dense product inside/outside the joint sparse map as requested; duplicates/overlap rejected"),
]))
ker_wrappers = factory_rule("KER.wrappers", gen("functools", [
    ("allow_only_kwargs", "keyword-only wrapper: rejects positional, extra and missing arguments; binds by name"),
    ("allow_args", "positional wrapper: checks the argument count; binds by position then by name"),
    ("get_union_of_arguments", "set union of the parameter names"),
]))
ker_masks = factory_rule("KER.masks", gen("state_space", [("_combine_masks", "logical_and of broadcast masks")]))
ker_panel = factory_rule("KER.panel", gen("simulate", [
    ("_process_simulated_data", "period-major concatenation; _period = repeat(arange(P), N)"),
    ("_compute_targets", "targets via the function DAG, mapped jointly over all non-params arguments"),
]))
ker_policy = factory_rule("KER.policy", gen("simulate", [
    ("get_discrete_policy_calculator", "arg-max over dense choice axes, then segment arg-max over sparse choices"),
    ("determine_discrete_dense_choice_axes", "positions (+1) of the dense discrete choices"),
    ("filter_ccv_policy", "continuous policy of the optimal dense choice (unravel over the dense grid shape)"),
]))
ker_mapcoord = factory_rule("KER.mapcoord", gen("ndimage", [
    ("map_coordinates", "sum over the 2^rank corners of (product of weights) * value"),
    ("_round_half_away_from_zero", "rounding for integer inputs"),
]))
ker_gridclasses = factory_rule("KER.gridclasses", gen("grids", [
    ("_validate_continuous_grid", "start/stop numeric and finite, n_points int >= 1, start < stop"),
    ("_validate_discrete_grid", "dataclass, non-empty, numeric, unique, codes 0..n-1 in declaration order"),
    ("_get_field_names_and_values", "field values in declaration order"),
    ("DiscreteGrid.__init__", "validation runs in the constructor"),
    ("DiscreteGrid.to_jax", "array of the codes"),
    ("ContinuousGrid.__post_init__", "validation runs in the constructor"),
    ("LinspaceGrid.to_jax", "linspace(start, stop, n_points)"),
    ("LinspaceGrid.get_coordinate", "linear coordinate with (start, stop, n_points)"),
    ("LogspaceGrid.__post_init__", "positive start required"),
    ("LogspaceGrid.to_jax", "logspace(start, stop, n_points)"),
    ("LogspaceGrid.get_coordinate", "log coordinate with (start, stop, n_points)"),
]))
ker_modelvalidation = factory_rule("KER.modelvalidation", gen("user_model", [
    ("_validate_attribute_types", "dicts with str keys, Grid values, callable functions"),
    ("_validate_logical_consistency", "n_periods >= 1, utility present, next function per state, no state/choice overlap"),
    ("Model.__post_init__", "both validators run in the constructor"),
]) + gen("exceptions", [("format_messages", "message formatting")]))
ker_template = factory_rule("KER.template", gen("input_processing.create_params_template", [
    ("create_params_template", "beta | function params | shocks"),
    ("_create_function_params", "free arguments = signature - (functions, choices, states, _period)"),
    ("_create_stochastic_transition_params", "validation; shape = dependency sizes in signature order + own size"),
]))
ker_funcrep_guard = factory_rule("KER.funcrepguard", gen("function_representation", [
    ("_fail_if_interpolation_axes_are_not_last", "interpolation axes must be the trailing axis names"),
    ("get_function_representation", "label translators, indexer lookup in the indexer's own axis order, array lookup on the "
     "leading axes, coordinate finders and interpolator on the trailing axes, chained as one DAG"),
]))
ker_nextstate_dag = factory_rule("KER.nextstatedag", gen("next_state", [
    ("get_next_state_function", "dispatch on target"),
    ("_get_next_state_function_solution", "all next functions as one DAG"),
    ("_get_next_state_function_simulation", "samplers override stochastic placeholders; weights added"),
]) + gen("mark", [("stochastic", "marker keeps the signature")]))
ker_modeldags = factory_rule("KER.modeldags", gen("model_functions", [
    ("get_combined_constraint", "constraints aggregated with logical_and"),
    ("get_current_u_and_f", "utility and feasibility from one DAG"),
    ("get_next_weights_function", "weight_<next fn> targets"),
]) + gen("discrete_problem", [("get_solve_discrete_problem", "choice axes from variable info (last period without auxiliary)")]))
ker_util = factory_rule("KER.util", gen("input_processing.util", [
    ("get_function_info", "function classification by name conventions"),
    ("_get_auxiliary_variables", "states that only occur in next functions"),
    ("get_gridspecs", "gridspecs in canonical order"),
    ("get_grids", "grids in canonical order"),
]))


# ---------------------------------------------------------------------------------------
# plumbing functions, SOFT mode: a deviation confined to a few small sites (what a slip or a
# mutation looks like) is refuted; a restructuring is 'undecided' here and left to the
# dataflow obligations (R2, R3, R13, R15, ...), which do not depend on the code's shape.
# ---------------------------------------------------------------------------------------
soft_entry = factory_rule("KERS.entry", gen("entry_point", [
    ("get_lcm_function", "per-period lists, shifts, partial bindings, target dispatch"),
    ("create_compute_conditional_continuation_value", "masked max over the product of continuous choices"),
    ("create_compute_conditional_continuation_policy", "masked arg-max over the product of continuous choices"),
]), soft=True)
soft_solve = factory_rule("KERS.solve", gen("solve_brute", [
    ("solve", "backward loop"), ("solve_continuous_problem", "spacemap evaluation"),
]), soft=True)
soft_simulate = factory_rule("KERS.simulate", gen("simulate", [
    ("simulate", "forward simulation loop"), ("solve_continuous_problem", "spacemap evaluation on the data space"),
    ("create_data_scs", "data state-choice space"),
]), soft=True)
soft_space = factory_rule("KERS.space", gen("state_space", [
    ("create_state_choice_space", "space, space info, indexers, segments of one period"),
]) + gen("discrete_problem", [("_determine_dense_discrete_choice_axes", "positions of the dense discrete choice axes")]), soft=True)
soft_varinfo = factory_rule("KERS.varinfo", gen("input_processing.util", [
    ("get_variable_info", "classification of variables and canonical order"),
]), soft=True)
soft_uandf = factory_rule("KERS.uandf", gen("model_functions", [
    ("get_utility_and_feasibility_function", "u_and_f for last and non-last periods"),
]), soft=True)
soft_process = factory_rule("KERS.process", gen("input_processing.process_model", [
    ("process_model", "internal model assembly"),
    ("_get_internal_functions", "which wrapper for which kind of function; weight functions registered as weight_next_<state>"),
]), soft=True)
