"""R3 PER -- period-offset agreement of the per-period lists."""

from __future__ import annotations

from lcmsa.core import AnalysisError, callee_name, is_term, kw, show, walk
from lcmsa.match import calls_in, need
from lcmsa.report import Ctx, rule

GLF = "lcm.entry_point.get_lcm_function"
SOLVE = "lcm.solve_brute.solve"
SIM = "lcm.simulate.simulate"

FACTORY_PERIOD_KW = {
    "lcm.state_space.create_state_choice_space": "period",
    "lcm.model_functions.get_utility_and_feasibility_function": "period",
}


def subst(t, mapping):
    """Capture-aware substitution: a comprehension / lambda that binds one of the substituted
    variables itself shadows it."""
    if not isinstance(t, tuple):
        return t
    if is_term(t) and t in mapping:
        return mapping[t]
    if is_term(t) and t[0] == "comp" and len(t) == 4:
        bound = {x for tg, _it, _c in t[3] for x in walk(tg) if x[0] == "bv"} if True else set()
        inner = {k: v for k, v in mapping.items() if k not in bound}
        if len(inner) != len(mapping):
            # the iterable of the first generator is evaluated outside the binder
            gens = list(t[3])
            first = (gens[0][0], subst(gens[0][1], mapping), tuple(subst(c, inner) for c in gens[0][2]))
            rest = [(tg, subst(it, inner), tuple(subst(c, inner) for c in cs)) for tg, it, cs in gens[1:]]
            elt = tuple(subst(e, inner) for e in t[2]) if t[1] == "dict" else subst(t[2], inner)
            return ("comp", t[1], elt, (first, *rest))
    return tuple(subst(x, mapping) if isinstance(x, tuple) else x for x in t)


def affine(t, var):
    """Return (a, b) with t == a*var + b for integer constants, else None."""
    if t == var:
        return (1, 0)
    if t[0] == "const" and isinstance(t[1], int) and not isinstance(t[1], bool):
        return (0, t[1])
    if t[0] == "binop" and t[1] in ("+", "-"):
        l, r = affine(t[2], var), affine(t[3], var)
        if l is None or r is None:
            return None
        s = 1 if t[1] == "+" else -1
        return (l[0] + s * r[0], l[1] + s * r[1])
    if t[0] == "unop" and t[1] == "-":
        x = affine(t[2], var)
        return None if x is None else (-x[0], -x[1])
    return None


def slope(t, var):
    """Coefficient of ``var`` in t when t is affine in var with a loop-invariant (possibly symbolic) offset, else None."""
    if t == var:
        return 1
    if not any(x == var for x in walk(t)):
        return 0
    if t[0] == "binop" and t[1] in ("+", "-"):
        l, r = slope(t[2], var), slope(t[3], var)
        if l is None or r is None:
            return None
        return l + (r if t[1] == "+" else -r)
    if t[0] == "unop" and t[1] == "-":
        x = slope(t[2], var)
        return None if x is None else -x
    return None


class PSeq:
    """list[i] == elem[lv := i + offset] for i + offset < n, else ``tail``."""

    def __init__(self, elem, lv, offset, tail, n, const=False):
        self.elem, self.lv, self.offset, self.tail, self.n, self.const = elem, lv, offset, tail, n, const

    def at(self, index_term):
        """Element at symbolic index (affine in some consumer variable)."""
        if self.const:
            return self.elem
        return subst(self.elem, {self.lv: index_term if self.offset == 0 else ("binop", "+", index_term, ("const", self.offset))})

    def describe(self):
        if self.const:
            return f"const[{show(self.elem)[:60]}]"
        return f"PSeq(offset={self.offset:+d}, tail={show(self.tail)[:20] if self.tail is not None else '-'}, elem={show(self.elem)[:80]})"


def pseq(prog, t, depth=0):
    """Abstract a list-valued term built in get_lcm_function as a PSeq."""
    if depth > 6:
        raise AnalysisError("per-period list too deeply nested")
    if t[0] == "loopout":
        lp = need(prog.loops.get(t[1]), f"loop {t[1]} unknown")
        nxt, init = lp.next.get(t[2]), lp.init.get(t[2])
        need(init == ("list", ()), f"list {t[2]} does not start empty")
        elem = _append_elem(nxt, ("carried", t[1], t[2]))
        if not (callee_name(lp.iter) == "builtins.range" and len(lp.iter[2]) == 1):
            # for i, (a, b) in enumerate(zip(A, B)) / for a, b in zip(A, B) / for i, a in enumerate(A):
            # iteration i sees a = A[i], b = B[i]
            idx, mapping, n = _loop_over_lists(lp, t[2])
            return PSeq(subst(elem, mapping), idx, 0, None, n)
        need(lp.target[0] == "loopvar", "loop target is not a single variable")
        return PSeq(elem, lp.target, 0, None, lp.iter[2][0])
    if t[0] == "binop" and t[1] == "+":
        # L[k:] + [x]
        left, right = t[2], t[3]
        if left[0] == "sub" and left[2][0] == "slice" and right[0] == "list" and len(right[1]) >= 1:
            lo, hi, st = left[2][1], left[2][2], left[2][3]
            need(st is None, f"unsupported slice step in {show(t)[:80]}")
            lo_v = 0 if lo is None else lo[1] if lo[0] == "const" and isinstance(lo[1], int) else None
            if hi is None:
                hi_v = 0
            elif hi[0] == "unop" and hi[1] == "-" and hi[2][0] == "const" and isinstance(hi[2][1], int):
                hi_v = hi[2][1]
            else:
                hi_v = None
            need(lo_v is not None and lo_v >= 0 and hi_v is not None, f"unsupported slice in {show(t)[:80]}")
            base = pseq(prog, left[1], depth + 1)
            return PSeq(base.elem, base.lv, base.offset + lo_v, right[1][-1], base.n, base.const)
        if right[0] == "sub" and right[2][0] == "slice" and left[0] == "list":
            lo, hi, st = right[2][1], right[2][2], right[2][3]
            # [x] + L[:-1]  -> offset -1
            if lo is None and st is None and hi is not None and hi == ("unop", "-", ("const", 1)) and len(left[1]) == 1:
                base = pseq(prog, right[1], depth + 1)
                return PSeq(base.elem, base.lv, base.offset - 1, left[1][0], base.n, base.const)
        if right[0] == "list" and left[0] != "list":
            # L + [x, ...]: positions below len(L) are unchanged
            base = pseq(prog, left, depth + 1)
            return PSeq(base.elem, base.lv, base.offset, right[1][-1] if right[1] else None, base.n, base.const)
        raise AnalysisError(f"list surgery outside vocabulary: {show(t)[:100]}")
    if t[0] == "list" and len(t[1]) >= 2 and t[1][0][0] == "star":
        inner = t[1][0][1]
        if inner[0] == "sub" and inner[2][0] == "slice":
            lo = inner[2][1]
            need(inner[2][2] is None and inner[2][3] is None and lo is not None and lo[0] == "const",
                 "unsupported slice")
            need(len(t[1]) - 1 == lo[1], "shifted list changes length")
            base = pseq(prog, inner[1], depth + 1)
            return PSeq(base.elem, base.lv, base.offset + lo[1], t[1][-1], base.n, base.const)
    if t[0] == "binop" and t[1] == "*":
        lst, n = (t[2], t[3]) if t[2][0] == "list" else (t[3], t[2])
        if lst[0] == "list" and len(lst[1]) == 1:
            return PSeq(lst[1][0], None, 0, None, n, const=True)
    if t[0] == "comp" and t[1] in ("list", "gen") and len(t[3]) == 1 and callee_name(t[3][0][1]) == "builtins.range":
        tg, it, conds = t[3][0]
        need(not conds and tg[0] == "bv" and len(it[2]) == 1, "list comprehension outside vocabulary")
        return PSeq(t[2], tg, 0, None, it[2][0])
    if t[0] == "comp" and t[1] in ("list", "gen") and len(t[3]) == 1 and not t[3][0][2] and t[3][0][0][0] == "bv":
        # a comprehension over another per-period list: composition
        tg, it, _conds = t[3][0]
        base = pseq(prog, it, depth + 1)
        need(not base.const and base.lv is not None, "comprehension over a constant list")
        return PSeq(subst(t[2], {tg: base.elem}), base.lv, base.offset, None, base.n)
    if t[0] == "comp" and t[1] in ("list", "gen") and len(t[3]) == 1 and not t[3][0][2] and t[3][0][0][0] == "tuple" \
            and all(x[0] == "bv" for x in t[3][0][0][1]):
        # [a for a, _, _ in rows]: the components of the rows of another per-period list
        from lcmsa.core import _project

        tg, it, _conds = t[3][0]
        base = pseq(prog, it, depth + 1)
        need(not base.const and base.lv is not None, "comprehension over a constant list")
        mapping = {bv: _project(base.elem, i, ("sub", base.elem, ("const", i))) for i, bv in enumerate(tg[1])}
        return PSeq(subst(t[2], mapping), base.lv, base.offset, None, base.n)
    if t[0] == "sub" and t[2][0] == "const" and t[1][0] == "comp" and t[1][1] in ("gen", "list") and len(t[1][3]) == 1 \
            and callee_name(t[1][3][0][1]) == "builtins.zip" and not t[1][3][0][2]:
        # (list(col) for col in zip(*rows))[k]  ==  list(zip(*rows)[k])
        tg, it, _c = t[1][3][0]
        elt = t[1][2]
        if elt == tg or (callee_name(elt) in ("builtins.list", "builtins.tuple") and elt[2] == (tg,)):
            return pseq(prog, ("sub", it, t[2]), depth + 1)
    if t[0] == "sub" and t[2][0] == "slice":
        lo, hi, st = t[2][1], t[2][2], t[2][3]
        if hi is None and st is None and lo is not None and lo[0] == "const":
            base = pseq(prog, t[1], depth + 1)
            return PSeq(base.elem, base.lv, base.offset + lo[1], base.tail, base.n, base.const)
    if callee_name(t) in ("builtins.list", "builtins.tuple") and len(t[2]) == 1 and not t[3]:
        return pseq(prog, t[2][0], depth + 1)
    if t[0] == "sub" and t[2][0] == "const" and callee_name(t[1]) == "builtins.zip" and len(t[1][2]) == 1 and t[1][2][0][0] == "star":
        # zip(*rows)[k]: the k-th component of every row
        base = pseq(prog, t[1][2][0][1], depth + 1)
        from lcmsa.core import _project

        comp = ("sub", base.elem, t[2])
        return PSeq(_project(base.elem, t[2][1], comp), base.lv, base.offset, base.tail, base.n, base.const)
    if t[0] in ("param", "phi", "ifexp", "call", "attr"):
        # an opaque list: element i is simply t[i]
        return PSeq(("sub", t, BASE), BASE, 0, None, None)
    raise AnalysisError(f"per-period list built by a construct outside the vocabulary: {show(t)[:120]}")


BASE = ("basevar",)


def _loop_over_lists(lp, name):
    """A loop header that walks one or several lists in step: (index variable, {element variable: list[index]}, length)."""
    it, tg = lp.iter, lp.target
    idx = None
    if callee_name(it) == "builtins.enumerate" and len(it[2]) == 1 and not it[3] and tg[0] == "tuple" and len(tg[1]) == 2 \
            and tg[1][0][0] == "loopvar":
        idx, it, tg = tg[1][0], it[2][0], tg[1][1]
    if idx is None:
        idx = ("loopvar", lp.id, "<index>")
    if callee_name(it) == "builtins.zip" and it[2] and not any(x[0] == "star" for x in it[2]):
        lists = list(it[2])
        need(tg[0] == "tuple" and len(tg[1]) == len(lists) and all(x[0] == "loopvar" for x in tg[1]),
             f"list {name}: the targets of the loop over zip(...) are not one variable per list")
        targets = list(tg[1])
    else:
        need(tg[0] == "loopvar" and it[0] in ("loopout", "param", "binop", "list", "comp", "call", "sub"),
             f"list {name} is filled by a loop that is neither 'for .. in range(n)' nor a walk over per-period lists")
        lists, targets = [it], [tg]
    mapping = {v: ("sub", L, idx) for v, L in zip(targets, lists, strict=True)}
    return idx, mapping, ("call", ("glob", "builtins.len"), (lists[0],), ())


def _append_elem(nxt, carried):
    if nxt is None:
        raise AnalysisError("list is not appended to in the loop")
    if nxt[0] == "mut" and nxt[2] == "append" and nxt[1] == carried and len(nxt[3]) == 1:
        return nxt[3][0]
    if nxt[0] == "phi":
        a, b = _append_elem(nxt[2], carried), _append_elem(nxt[3], carried)
        return ("phi", nxt[1], a, b)
    if nxt[0] == "binop" and nxt[1] == "+" and nxt[2] == carried and nxt[3][0] == "list" and len(nxt[3][1]) == 1:
        return nxt[3][1][0]
    raise AnalysisError(f"list update outside vocabulary: {show(nxt)[:100]}")


def solve_partial(prog, target):
    fr = prog.frame(GLF)
    for pc in calls_in(fr.ret, "functools.partial"):
        if pc[2] and pc[2][0] == ("func", target):
            return pc
    # the partial may be hidden behind a name only used for 'simulate' targets
    for t in fr.env.values():
        for pc in calls_in(t, "functools.partial"):
            if pc[2] and pc[2][0] == ("func", target):
                return pc
    raise AnalysisError(f"get_lcm_function: partial({target}, ...) not found")


def period_of(prog, t, var, depth=0):
    """Affine period (a, b) in ``var`` of the per-period object denoted by ``t``."""
    if depth > 10:
        return None
    t = prog.strip_wrappers(t)
    if t[0] == "sub" and t[2][0] == "const":
        b = t[1]
        if b[0] in ("carried", "loopout") and b[1] in prog.loops:
            nxt = prog.loops[b[1]].next.get(b[2])
            if nxt is not None and any(s[0] == "mut" and s[2] == "append" and len(s[3]) == 1
                                       and period_of(prog, s[3][0], prog.loops[b[1]].target, depth + 1) is not None for s in walk(nxt)):
                # element k of a list that collects one period-specific object per iteration: one period's object
                return ("fixed", t[2])
        return period_of(prog, t[1], var, depth + 1)
    if t[0] == "carried" and t[1] in prog.loops:
        # the value a name had at the end of an EARLIER iteration: if the loop assigns it a period-specific object,
        # this is the object of another period
        lp0 = prog.loops[t[1]]
        nxt = lp0.next.get(t[2])
        if nxt is not None and not (nxt[0] == "mut"):
            inner = None
            for s in walk(nxt):
                if s[0] == "call" and callee_name(s) in FACTORY_PERIOD_KW:
                    inner = period_of(prog, s, lp0.target, depth + 1)
                    break
            if inner is not None and not isinstance(inner[0], str) and inner[0] != 0:
                return ("fixed", ("const", "an earlier iteration of the loop"))
    if t[0] in ("phi", "ifexp"):
        a, b = period_of(prog, t[2], var, depth + 1), period_of(prog, t[3], var, depth + 1)
        if a is None:
            return b
        if b is None:
            return a
        return a if a == b else ("conflict", a, b)
    if t[0] == "call":
        name = callee_name(t)
        if name in FACTORY_PERIOD_KW:
            p = kw(t, FACTORY_PERIOD_KW[name])
            if p is None:
                return None
            a = affine(p, var)
            if a is None and not any(x == var for x in walk(p)):
                return ("fixed", p)  # built for a period that does not depend on the period it is used in
            return a
        # derive from arguments that are per-period objects
        found = None
        for _k, v in t[3]:
            r = period_of(prog, v, var, depth + 1)
            if r is not None:
                if found is not None and found != r:
                    return ("conflict", found, r)
                found = r
        for v in t[2]:
            r = period_of(prog, v, var, depth + 1)
            if r is not None:
                if found is not None and found != r:
                    return ("conflict", found, r)
                found = r
        return found
    if t[0] == "loopout" and t[1] in prog.loops:
        # a name assigned in a per-period loop and used after it: the object of the LAST iteration
        lp = prog.loops[t[1]]
        nxt = lp.next.get(t[2])
        if nxt is not None and not (nxt[0] == "mut" or any(s == ("carried", t[1], t[2]) for s in walk(nxt))):
            inner = period_of(prog, nxt, lp.target, depth + 1)
            if inner is not None and not (isinstance(inner[0], str)) and inner[0] != 0:
                return ("fixed", ("const", "the last iteration of the loop that builds it"))
    base = t[1] if t[0] == "sub" else None
    while base is not None and base[0] in ("phi", "ifexp", "setitem"):
        base = base[2] if base[0] in ("phi", "ifexp") and base[2][0] in ("setitem", "carried", "loopout", "phi") else \
            base[3] if base[0] in ("phi", "ifexp") else base[1]
    if t[0] == "sub" and base is not None and base[0] in ("carried", "loopout") and t[2][0] != "const":
        # a loop-carried container (memo dict) indexed by a key: the element may stem from another iteration
        lp = prog.loops.get(base[1])
        nxt = lp.next.get(base[2]) if lp else None
        if lp is not None and nxt is not None and any(s[0] == "setitem" for s in walk(nxt)):
            key = t[2]
            items = [s for s in walk(nxt) if s[0] == "setitem"]
            period_specific = any(
                callee_name(c) in FACTORY_PERIOD_KW and affine(kw(c, FACTORY_PERIOD_KW[callee_name(c)]) or ("const", None), lp.target) == (1, 0)
                for it in items for c in walk(it[3]) if c[0] == "call")
            injective = affine(key, var) is not None and affine(key, var)[0] != 0
            if period_specific and not injective and (key[0] in ("cmp", "const", "boolop") or var not in set(walk(key))):
                return ("shared", key)
    if t[0] == "sub" and t[1][0] == "comp" and t[1][1] == "dict":
        # an element of a (finite) dict comprehension: whatever key is used, the value is one of its values
        return period_of(prog, t[1][2][1], var, depth + 1)
    if t[0] == "sub":
        # L[index]
        try:
            seq = pseq(prog, t[1])
        except AnalysisError:
            return None
        idx = affine(t[2], var)
        if idx is None or idx[0] != 1:
            return None
        elem = seq.at(t[2])
        return period_of(prog, elem, var, depth + 1)
    return None


def _fmt(p):
    if p is None:
        return "period-independent"
    if p[0] == "conflict":
        return f"conflicting periods {p[1]} vs {p[2]}"
    if p[0] == "fixed":
        return f"a fixed period ({show(p[1])[:40]})"
    if p[0] == "shared":
        return f"an object shared between periods (keyed by {show(p[1])[:40]})"
    a, b = p
    return ("t" if a == 1 else f"{a}*t") + (f"{b:+d}" if b else "")


T = ("tvar",)  # the symbolic consumer period


@rule("R3.PER")
def per_rules(ctx: Ctx):
    prog = ctx.prog
    glf = prog.frame(GLF)
    sp = solve_partial(prog, SOLVE)
    mp = solve_partial(prog, SIM)

    # ------------------------------------------------------------------ the solver loop
    sfr = prog.frame(SOLVE)
    loops = [lp for lid, lp in prog.loops.items() if lp.func == SOLVE and "@" not in lid]
    need(len(loops) == 1, f"solve: expected one period loop, found {len(loops)}")
    lp = loops[0]
    it = lp.iter
    backward = False
    n_term = None
    if callee_name(it) == "builtins.reversed" and callee_name(it[2][0]) == "builtins.range" and len(it[2][0][2]) == 1:
        backward, n_term = True, it[2][0][2][0]
    elif callee_name(it) == "builtins.range" and len(it[2]) == 3:
        a, b, c = it[2]
        if b == ("unop", "-", ("const", 1)) and c == ("unop", "-", ("const", 1)) and a[0] == "binop" and a[1] == "-" and a[3] == ("const", 1):
            backward, n_term = True, a[2]
    elif callee_name(it) == "builtins.range" and len(it[2]) == 1:
        backward, n_term = False, it[2][0]
    else:
        raise AnalysisError(f"solve: loop header outside vocabulary: {show(it)}")
    # the period may be computed from the loop variable (period = last - i): direction = header x sign of the index
    signs = set()
    for v in lp.next.values():
        for s_ in walk(v):
            if s_[0] == "sub" and s_[1][0] == "param" and s_[1][1] == SOLVE and s_[2][0] != "const":
                sl = slope(s_[2], lp.target)
                if sl != 0:  # an index that does not move with the loop says nothing about direction (PER3 judges it)
                    signs.add(sl if sl in (1, -1) else 2)
    if signs == {-1}:
        backward = not backward
    elif signs == {1, -1}:
        # some per-period list is indexed against the others (PER3 reports it); the direction of the induction is the
        # direction in which the state-choice space, and with it the carried value array, moves
        c0 = calls_in(tuple(lp.next.values()), "lcm.solve_brute.solve_continuous_problem")
        r0 = kw(c0[0], "state_choice_space") if c0 else None
        sl0 = slope(r0[2], lp.target) if r0 is not None and r0[0] == "sub" else None
        backward = (not backward if sl0 == -1 else backward) if sl0 in (1, -1) else None
    elif signs != {1}:
        backward = None if not backward else backward  # mixed / unrecognised index expressions: no verdict on direction
        if signs - {1}:
            backward = None
    ctx.ob("PER1:solve:backward", backward, prog.where(it),
           "the solver iterates periods from last to first" if backward else
           "the solver loop runs forward: V(t+1) is not available when period t is solved", lhs=it)
    # n_periods == len of a per-period list
    n_ok = callee_name(n_term) == "builtins.len" and n_term[2] and n_term[2][0][0] == "param"
    ctx.ob("PER1:solve:n_periods", n_ok if n_ok else None, prog.where(n_term),
           "loop bound is the length of a per-period list" if n_ok else "loop bound not recognised", lhs=n_term)
    # the loop counts steps and derives the period from them (period = last - i): re-express the iteration in terms of
    # the period expression, so that the offsets below are offsets to the period that is being solved
    idx_terms = {s_[2] for v in lp.next.values() for s_ in walk(v)
                 if s_[0] == "sub" and s_[1][0] == "param" and s_[1][1] == SOLVE and slope(s_[2], lp.target) != 0}
    orig_lv = lp.target
    scp0 = calls_in(tuple(lp.next.values()), "lcm.solve_brute.solve_continuous_problem")
    ref0 = kw(scp0[0], "state_choice_space") if scp0 else None
    ref_slope = slope(ref0[2], orig_lv) if ref0 is not None and ref0[0] == "sub" else None
    if ref_slope in (1, -1):
        # indices running against the state-choice space are judged below (PER3), they do not take part here
        idx_terms = {i for i in idx_terms if slope(i, lp.target) == ref_slope}
    if idx_terms and any(affine(i, lp.target) is None for i in idx_terms):
        cands = [c for c in {x for i in idx_terms for x in walk(i)} if slope(c, lp.target) in (1, -1)
                 and all(affine(i, c) is not None for i in idx_terms)]
        if cands:
            import dataclasses
            pterm = max(cands, key=lambda c: (sum(1 for _ in walk(c)), repr(c)))
            pvar = ("loopvar", lp.id, "<period>")
            lp = dataclasses.replace(lp, target=pvar, next={k: subst(v, {pterm: pvar}) for k, v in lp.next.items()})
    lv = lp.target
    # the continuous problem call of one iteration
    scp = [c for c in calls_in(tuple(lp.next.values()), "lcm.solve_brute.solve_continuous_problem")]
    need(scp, "solve: solve_continuous_problem is not called in the loop")
    scp = scp[0]
    vf = kw(scp, "vf_arr")
    carried_ok = vf is not None and vf[0] == "carried" and lp.init.get(vf[2]) == ("const", None)
    # anything else that is computed from loop-carried state (a dict of arrays keyed by period, ...) is outside the
    # vocabulary: no verdict.  A constant, a parameter or a carried value with another start is a violation.
    derived = vf is not None and vf[0] != "carried" and any(x[0] == "carried" and x[1] == lp.id for x in walk(vf))
    ctx.ob("PER1:solve:vf-carried", None if derived else carried_ok, prog.where(scp),
           "vf_arr of iteration t is the array computed in the previous iteration (t+1), None in the last period"
           if carried_ok else "vf_arr passed to the continuous problem is not the loop-carried value array "
           "initialised with None", lhs=vf if vf is not None else "missing")
    new_vf = lp.next.get(vf[2]) if carried_ok else None
    if carried_ok and new_vf is not None and new_vf[0] == "sub" and new_vf[1][0] == "setitem" and new_vf[1][2] == new_vf[2]:
        new_vf = new_vf[1][3]  # solution[t] = V; next_vf = solution[t]: the value just stored
    if carried_ok:
        # V_t := emax_calculators[t](ccv_t)
        ok = (new_vf[0] == "call" and new_vf[2] and new_vf[2][0] == scp) or scp in set(walk(new_vf))
        ctx.ob("PER1:solve:vf-update", ok, prog.where(new_vf),
               "the carried array is replaced by the emax of this period's continuation values" if ok
               else "the carried value array is not computed from this period's continuation values", lhs=new_vf)
        calc = new_vf[1] if new_vf[0] == "call" else None
        # result list
        rets = sfr.ret
        acc = [s for s in walk(rets) if s[0] == "loopout" and s[1] == lp.id]
        need(acc, "solve does not return a list filled in the period loop")
        acc = acc[0]
        nx_acc = lp.next.get(acc[2])
        by_index = nx_acc is not None and nx_acc[0] == "setitem" and nx_acc[1] == ("carried", lp.id, acc[2])
        elem = nx_acc[3] if by_index else _append_elem(nx_acc, ("carried", lp.id, acc[2]))
        ctx.ob("PER5:solve:collects-V", elem == new_vf, prog.where(rets),
               "every period's value array is collected" if elem == new_vf else
               "the collected array is not the period's value array", lhs=elem, rhs=new_vf)
        rev = False
        r = rets
        if callee_name(r) == "builtins.list" and r[2] and callee_name(r[2][0]) == "builtins.reversed" and r[2][0][2][0] == acc:
            rev = True
        if r[0] == "sub" and r[1] == acc and r[2] == ("slice", None, None, ("unop", "-", ("const", 1))):
            rev = True
        chrono = rev if backward else r == acc
        if by_index:
            # one slot per period, filled at the position of the period: chronological whatever the loop direction
            init = lp.init.get(acc[2])
            slots = init is not None and init[0] == "binop" and init[1] == "*" and any(
                x[0] == "list" and x[1] == (("const", None),) for x in (init[2], init[3]))
            sl = slope(nx_acc[2], lp.target)
            period_expr_ok = any(s_[0] == "sub" and s_[1][0] == "param" and s_[2] == nx_acc[2] for v in lp.next.values() for s_ in walk(v))
            chrono = True if (r == acc and slots and sl in (1, -1) and period_expr_ok) else None
        ctx.ob("PER5:solve:chronological", chrono, prog.where(rets),
               "the list collected backwards is reversed before it is returned" if chrono else
               "the solution list is not in chronological order", lhs=rets)
    else:
        calc = None

    # params of this call reach the continuous and the discrete problem
    ok_p = kw(scp, "params") == ("param", SOLVE, "params")
    ok_e = new_vf is not None and new_vf[0] == "call" and kw(new_vf, "params") == ("param", SOLVE, "params")
    ctx.ob("PER:solve:params-passed", ok_p and (ok_e or new_vf is None), prog.where(scp),
           "every period is solved with the params of this call" if ok_p and ok_e else
           "the params argument of solve is not passed to the continuous / discrete problem of each period",
           lhs=kw(scp, "params") or "missing", rhs="params")
    # ------------------------------------------------------------------ solver offsets
    def param_seq(partial_call, param):
        v = need(kw(partial_call, param), f"partial(...) does not bind {param}")
        return pseq(prog, v), v

    def consumer_period(call, kwname, partial_call, owner, lv):
        """Period (affine in t) of the object passed as ``kwname`` in one iteration."""
        a = need(kw(call, kwname), f"{callee_name(call)} call without {kwname}=")
        need(a[0] == "sub" and a[1][0] == "param" and a[1][1] == owner,
             f"{kwname}= is not an element of a per-period list parameter: {show(a)[:80]}")
        idx = affine(a[2], lv)
        need(idx is not None and idx[0] == 1, f"{kwname}: index {show(a[2])} is not t+k")
        seq, raw = param_seq(partial_call, a[1][2])
        obj = seq.at(("binop", "+", T, ("const", idx[1])) if idx[1] else T)
        return obj, seq, raw, idx[1]

    def fixed_index(key, a, partial_call, owner, lv, what):
        """``what`` is list[i] with i the same in every iteration: one period's object serves all periods."""
        if not (a is not None and a[0] == "sub" and a[1][0] == "param" and a[1][1] == owner and slope(a[2], lv) == 0 and slope(a[2], orig_lv) == 0):
            return False
        seq, raw = param_seq(partial_call, a[1][2])
        if seq.const:
            return False
        ctx.ob(key, False, prog.where(raw),
               f"{what}: element {show(a[2])[:60]} of the per-period list is used in every iteration of the period loop, "
               "although the list holds period-specific objects", lhs=show(a)[:120], rhs="element of the period being solved")
        return True

    ref_ix = ref0

    def opposite_index(key, a, partial_call, owner, lv, what):
        """``what`` is list[j] where j runs against the index of the state-choice space of the same iteration."""
        if not (ref_slope in (1, -1) and a is not None and a[0] == "sub" and a[1][0] == "param" and a[1][1] == owner
                and slope(a[2], orig_lv) == -ref_slope):
            return False
        seq, raw = param_seq(partial_call, a[1][2])
        if seq.const:
            return False
        ctx.ob(key, False, prog.where(raw),
               f"{what}: indexed by {show(a[2])[:60]}, which runs in the opposite direction to the index of the state-choice "
               f"space ({show(ref_ix[2])[:60]}): one iteration combines objects of different periods",
               lhs=show(a)[:120], rhs="element of the period being solved")
        return True

    def check_offset(key, call, kwname, partial_call, owner, lv, want, why):
        if fixed_index(key, kw(call, kwname), partial_call, owner, lv, kwname) or \
                opposite_index(key, kw(call, kwname), partial_call, owner, lv, kwname):
            return None
        obj, seq, raw, k = consumer_period(call, kwname, partial_call, owner, lv)
        if seq.const:
            ctx.ob(key, True, prog.where(raw), f"{kwname}: the same object in every period ({why})",
                   lhs=seq.describe(), nontrivial=False)
            return obj
        p = period_of(prog, obj, T)
        if p is not None and p[0] == "fixed":
            ctx.ob(key, False, prog.where(raw),
                   f"{kwname}: the object used in period t is built by a per-period factory with period={show(p[1])[:50]}, "
                   "which does not depend on t: every period gets the object of one fixed period", lhs=seq.describe(),
                   rhs=f"t{want:+d}" if want else "t")
            return obj
        if p is not None and p[0] == "shared":
            ctx.ob(key, False, prog.where(raw),
                   f"{kwname}: the per-period object is looked up in a container keyed by {show(p[1])[:60]}, which takes "
                   "the same value for different periods, although the object is built from period-specific inputs: "
                   "several periods share the object of one period", lhs=seq.describe(), rhs=f"t{want:+d}" if want else "t")
            return obj
        ok = p == (1, want)
        ctx.ob(key, ok if p is not None else None, prog.where(raw),
               f"{kwname} used in period t belongs to period {_fmt(p)} -- required t{want:+d}: {why}"
               if p is not None else f"{kwname}: period of the element not derivable",
               lhs=seq.describe(), rhs=f"t{want:+d}" if want else "t")
        ctx.count("per_period_lists")
        return obj

    check_offset("PER3:solve:state_choice_space", scp, "state_choice_space", sp, SOLVE, lv, 0,
                 "V_t is computed on the space of period t")
    ccv_obj = check_offset("PER3:solve:compute_ccv", scp, "compute_ccv", sp, SOLVE, lv, 0,
                           "utility, constraints and transitions of period t")
    check_offset("PER3:solve:continuous_choice_grids", scp, "continuous_choice_grids", sp, SOLVE, lv, 0,
                 "choice grids of period t")
    check_offset("PER2:solve:state_indexers", scp, "state_indexers", sp, SOLVE, lv, 1,
                 "the indexer locates next-period states inside V_{t+1}")
    if calc is not None and (fixed_index("PER3:solve:emax_calculator", calc, sp, SOLVE, lv, "emax calculator")
                             or opposite_index("PER3:solve:emax_calculator", calc, sp, SOLVE, lv, "emax calculator")):
        pass
    elif calc is not None and calc[0] == "sub" and calc[1][0] == "param":
        seq, raw = param_seq(sp, calc[1][2])
        idx = affine(calc[2], lv)
        need(idx is not None and idx[0] == 1, "emax calculator index is not t+k")
        obj = seq.at(("binop", "+", T, ("const", idx[1])) if idx[1] else T)
        p = period_of(prog, obj, T)
        ctx.ob("PER3:solve:emax_calculator", (p == (1, 0)) if p is not None else None, prog.where(raw),
               f"the discrete problem of period t uses the choice segments of period {_fmt(p)} -- required t",
               lhs=seq.describe(), rhs="t")
        ctx.count("per_period_lists")
        _flags(ctx, prog, obj, "emax_calculator")
    else:
        ctx.undecided("PER3:solve:emax_calculator", "the emax calculator is not an element of a per-period list")

    # space_info inside u_and_f of period t: period t+1
    need(ccv_obj is not None, "compute_ccv of the period being solved not identified")
    uf = [c for c in walk(ccv_obj) if callee_name(c) == "lcm.model_functions.get_utility_and_feasibility_function"]
    need(uf, "compute_ccv is not built from get_utility_and_feasibility_function")
    uf = uf[0]
    si = need(kw(uf, "space_info"), "u_and_f without space_info=")
    p = period_of(prog, si, T)
    ctx.ob("PER2:space_info", p == (1, 1) if p is not None else None, prog.where(si),
           f"the value-function representation inside u_and_f of period t describes period {_fmt(p)} -- required t+1",
           lhs=show(si)[:200], rhs="t+1")
    pk = kw(uf, "period")
    ctx.ob("PER3:u_and_f:period", affine(pk, T) == (1, 0) if pk is not None else None, prog.where(uf),
           "u_and_f of list position t is built with period=t", lhs=pk if pk is not None else "missing", rhs="t")
    _flags(ctx, prog, uf, "u_and_f")
    # is_last_period semantics
    _last_period_flag(ctx, prog, glf)
    _flag_of_own_period(ctx, prog, glf)

    # ------------------------------------------------------------------ simulate
    simfr = prog.frame(SIM)
    sloops = [l for lid, l in prog.loops.items() if l.func == SIM and "@" not in lid]
    need(len(sloops) == 1, "simulate: expected one period loop")
    sl = sloops[0]
    fwd = callee_name(sl.iter) == "builtins.range" and len(sl.iter[2]) == 1
    ctx.ob("PER1:simulate:forward", fwd, prog.where(sl.iter), "the simulation runs forward in time", lhs=sl.iter)
    slv = sl.target
    sscp = calls_in(tuple(sl.next.values()), "lcm.simulate.solve_continuous_problem")
    need(sscp, "simulate: solve_continuous_problem is not called in the loop")
    sscp = sscp[0]
    vf = need(kw(sscp, "vf_arr"), "simulate: no vf_arr=")
    need(vf[0] == "sub", "simulate: vf_arr is not an element of the value array list")
    idx = affine(vf[2], slv)
    try:
        vseq = pseq(prog, vf[1])
        total = (vseq.offset + idx[1]) if idx is not None and idx[0] == 1 else None
        tail_none = vseq.tail == ("const", None)
    except AnalysisError as e:
        total, tail_none = None, False
        ctx.undecided("PER1:simulate:vf-offset", str(e), prog.where(vf))
        vseq = None
    if vseq is not None:
        ctx.ob("PER1:simulate:vf-offset", total == 1 and tail_none, prog.where(vf),
               "in period t the simulation uses V_{t+1} of the supplied list, None in the last period"
               if total == 1 and tail_none else
               f"in period t the simulation uses list position t{total:+d} (tail {show(vseq.tail)}): required V_(t+1), None last",
               lhs=vf, rhs="vf_arr_list[t+1]")
        # base list: solve_model(params) iff vf_arr_list is None
        base = vseq.elem if vseq.const else None
        src = vf[1]
        while src[0] in ("binop", "sub") :
            src = src[2] if src[0] == "binop" else src[1]
        ok = (
            src[0] == "phi" and src[1][0] == "cmp" and src[1][1] == ("is",) and src[1][2][1] == ("const", None)
            and src[1][2][0] == ("param", SIM, "vf_arr_list")
            and src[2][0] == "call" and src[2][1] == ("param", SIM, "solve_model")
            and src[2][2] == (("param", SIM, "params"),) and src[3] == ("param", SIM, "vf_arr_list")
        )
        ctx.ob("PER5:simulate:solves-iff-no-arrays", ok if ok else None, prog.where(src),
               "value arrays: the supplied list, or solve_model(params) exactly when none is supplied" if ok
               else "source of the value arrays not recognised", lhs=src)
    check_offset("PER3:simulate:compute_ccv_policy", sscp, "compute_ccv", mp, SIM, slv, 0,
                 "policy functions of period t")
    check_offset("PER2:simulate:state_indexers", sscp, "state_indexers", mp, SIM, slv, 1,
                 "the indexer locates next-period states inside V_{t+1}")
    check_offset("PER3:simulate:continuous_choice_grids", sscp, "continuous_choice_grids", mp, SIM, slv, 0,
                 "choice grids of period t")
    ds = calls_in(tuple(sl.next.values()), "lcm.simulate.create_data_scs")
    if ds:
        pk = kw(ds[0], "period")
        ctx.ob("PER3:simulate:data-space-period", affine(pk, slv) == (1, 0) if pk is not None else None,
               prog.where(ds[0]), "filters of the data space are evaluated for the current period",
               lhs=pk if pk is not None else "missing", rhs="t")
    # C06: both sides share the lists
    same_idx = kw(sp, "state_indexers") == kw(mp, "state_indexers")
    same_grid = kw(sp, "continuous_choice_grids") == kw(mp, "continuous_choice_grids")
    ctx.ob("PER:shared-lists", same_idx and same_grid, prog.where(mp),
           "solver and simulator receive the same state indexer and choice grid lists"
           if same_idx and same_grid else "solver and simulator are given different indexer/grid lists",
           lhs=kw(mp, "state_indexers"), rhs=kw(sp, "state_indexers"))
    # solve_and_simulate = partial(simulate_model, solve_model=solve_model) with the very solve function
    ret = glf.ret
    sas = [c for c in calls_in(ret, "functools.partial") if kw(c, "solve_model") is not None]
    if sas:
        sm = kw(sas[0], "solve_model")
        ok = sp in set(walk(sm)) and sas[0][2] and mp in set(walk(sas[0][2][0]))
        ctx.ob("PER5:solve_and_simulate", ok, prog.where(sas[0]),
               "'solve_and_simulate' is the simulate function with the model's own solve function bound" if ok
               else "'solve_and_simulate' does not combine this model's solve and simulate functions", lhs=sas[0])
    else:
        ctx.undecided("PER5:solve_and_simulate", "target solve_and_simulate not recognised", prog.where(ret))
    ctx.floor("per_period_lists", 5)


def _resolve_elems(prog, t, depth=0):
    """Replace ``L[i]`` by the element itself where L is a per-period list given by a comprehension."""
    if not isinstance(t, tuple) or depth > 40:
        return t
    t = tuple(_resolve_elems(prog, x, depth + 1) if isinstance(x, tuple) else x for x in t)
    if is_term(t) and t[0] == "sub" and is_term(t[1]) and t[1][0] == "comp" and is_term(t[2]) and t[2][0] not in ("const", "slice"):
        try:
            seq = pseq(prog, t[1])
        except AnalysisError:
            return t
        if not seq.const and seq.lv is not None and seq.lv != BASE:
            return _resolve_elems(prog, seq.at(t[2]), depth + 1)
    return t


def _flags(ctx, prog, factory_call, role):
    """is_last_period flag of a per-period factory call evaluated at symbolic period T."""
    factory_call = _resolve_elems(prog, factory_call)
    for c in [factory_call, *[s for s in walk(factory_call) if s[0] == "call"]]:
        f = kw(c, "is_last_period") if c[0] == "call" else None
        if f is not None and any(x[0] == "bv" for x in walk(f)):
            continue  # the flag of a list built elsewhere (by a comprehension): judged where that list is consumed (PER2/PER3)
        if f is not None:
            ok = _is_last_flag(f)
            ctx.ob(f"PER4:{role}:{(callee_name(c) or 'call').split('.')[-1]}", ok if ok else None, prog.where(c),
                   "is_last_period is (t == n_periods - 1) for the same t" if ok else
                   f"is_last_period flag not recognised: {show(f)[:80]}", lhs=f, rhs="t == n_periods - 1")


def _is_last_flag(f):
    if f[0] == "cmp" and f[1] == ("==",):
        a, b = f[2]
        for x, y in ((a, b), (b, a)):
            if x == T and y[0] == "binop" and y[1] == "-" and y[3] == ("const", 1):
                return True
    return False


def _flag_of_own_period(ctx, prog, glf):
    """Wherever a per-period factory is called with both `period=P` and `is_last_period=F` -- in a loop body or in a
    comprehension --, F is (P == n_periods - 1) for the same P."""
    from lcmsa.match import deep_walk, frame_terms, loop_terms

    seen = set()
    followed: set = set()
    for t in frame_terms(glf) + loop_terms(prog, glf):
        for c in deep_walk(prog, t, followed):  # also into the loops of helpers that were seen through
            if c[0] != "call" or c in seen or callee_name(c) not in FACTORY_PERIOD_KW:
                continue
            seen.add(c)
            f, p = kw(c, "is_last_period"), kw(c, FACTORY_PERIOD_KW[callee_name(c)])
            if f is None or p is None:
                continue
            key = f"PER4:flag-of-own-period:{callee_name(c).split('.')[-1]}"
            verdict, why = None, f"is_last_period flag not recognised: {show(f)[:60]}"
            if f[0] == "cmp" and f[1] == ("==",) and len(f[2]) == 2 and p in f[2]:
                from lcmsa.alg import norm as _norm

                other = f[2][1] if f[2][0] == p else f[2][0]
                n_terms = [x for x in walk(other) if (x[0] == "attr" and x[2] == "n_periods") or callee_name(x) == "builtins.len"]
                n_like = any(_norm(other) == _norm(("binop", "-", nt, ("const", 1))) for nt in n_terms)
                verdict = bool(n_like)
                why = ("is_last_period is (period == n_periods - 1) for the period the object is built for" if n_like else
                       f"is_last_period compares the period with {show(other)[:50]}, not with n_periods - 1")
            elif f[0] == "cmp" and f[1] == ("==",) and len(f[2]) == 2 and any(
                    x[0] == "binop" and x[1] == "-" and x[3] == ("const", 1) and x[2][0] == "attr" and x[2][2] == "n_periods" for x in f[2]):
                other = next(x for x in f[2] if not (x[0] == "binop" and x[1] == "-" and x[3] == ("const", 1)))
                if affine(other, p) is not None and affine(other, p) != (1, 0):
                    verdict, why = False, f"is_last_period is computed for period {show(other)[:40]}, the object is built for period {show(p)[:40]}"
            ctx.ob(key, verdict, prog.where(c), why, lhs=f, rhs=f"{show(p)[:40]} == n_periods - 1")
            ctx.count("flagged_factories")
    ctx.floor("flagged_factories", 1)


def _last_period_flag(ctx, prog, glf):
    """The loops run over range(N) and the flag compares with N-1 for the same N."""
    loops = [lp for lid, lp in prog.loops.items() if lp.func == GLF and "@" not in lid]
    for lp in loops:
        flag = lp.next.get("is_last_period")
        if flag is None:
            cands = [v for v in lp.next.values() if v[0] == "cmp" and v[1] == ("==",)]
            flag = cands[0] if cands else None
        if flag is None:
            continue
        n = lp.iter[2][0] if callee_name(lp.iter) == "builtins.range" and len(lp.iter[2]) == 1 else None
        index_var = lp.target
        if n is None:
            # the loop walks per-period lists (enumerate / zip): its bound is their length
            try:
                index_var, mapping, _len = _loop_over_lists(lp, "is_last_period")
                n = pseq(prog, next(iter(mapping.values()))[1]).n
            except AnalysisError:
                n = None
        ok = False if n is not None else None
        if n is not None and flag[0] == "cmp" and flag[1] == ("==",):
            a, b = flag[2]
            from lcmsa.alg import norm as _norm

            for x, y in ((a, b), (b, a)):
                if x == index_var and _norm(y) == _norm(("binop", "-", n, ("const", 1))):
                    ok = True  # n - 1 in any arithmetic spelling
        ctx.ob(f"PER4:last-period-flag:{lp.id.split(':')[-1]}", ok, prog.where(flag),
               "is_last_period is true exactly for the last index of the period loop" if ok else
               "is_last_period is not (period == n_periods - 1) for the bound of its own loop", lhs=flag,
               rhs=f"{show(lp.target)} == {show(n) if n else '?'} - 1")
