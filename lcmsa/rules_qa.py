"""R2 QA -- the query algebra (exhaustive over variable classes)."""

from __future__ import annotations

from lcmsa.core import AnalysisError, callee_name, is_term, kw, show, walk
from lcmsa.alg import _chain_parts
from lcmsa.formula import Universe, columns, conj, parse, show_formula
from lcmsa.match import (
    as_setop,
    all_frames,
    calls_in,
    calls_in_frame,
    effective_formula,
    frame_terms,
    is_query,
    loop_terms,
    need,
    query_of,
    receiver_formula,
    selections,
    deep_selections,
    choice_axes_info,
    exists_formula,
)
from lcmsa.report import Ctx, rule

UTIL = "lcm.input_processing.util"
VAR_COLS = {
    "is_state", "is_choice", "is_continuous", "is_discrete", "is_stochastic",
    "is_auxiliary", "is_sparse", "is_dense",
}
FUNC_COLS = {"is_filter", "is_constraint", "is_next", "is_stochastic_next"}


# ======================================================================================
# the universe of variable classes, read from get_variable_info
# ======================================================================================


def column_definitions(prog):
    fr = prog.frame(f"{UTIL}.get_variable_info")
    t = fr.env.get("info")
    # the returned object is info.loc[order]; find the setitem chain behind it
    chain = None
    for cand in [t, fr.ret]:
        for s in walk(cand) if cand else []:
            if s[0] == "setitem":
                chain = s
                break
        if chain:
            break
    need(chain, "get_variable_info: no column assignments found")
    defs = {}
    t = chain
    while is_term(t) and t[0] == "setitem":
        col = t[2]
        if col[0] == "const" and isinstance(col[1], str) and col[1] not in defs:
            defs[col[1]] = t[3]
        t = t[1]
    return fr, defs


def build_universe(prog, ctx: Ctx | None = None):
    fr, defs = column_definitions(prog)
    need(VAR_COLS <= set(defs), f"get_variable_info: columns missing: {sorted(VAR_COLS - set(defs))}")
    independent, derived, constraints, notes = [], {}, [], []
    for col, val in defs.items():
        if val[0] == "unop" and val[1] == "~" and val[2][0] == "sub" and val[2][2][0] == "const":
            derived[col] = ("not", ("col", val[2][2][1]))
        else:
            independent.append(col)
    independent.sort()
    # --- implications visible in the definitions
    state_src = None
    v = defs["is_state"]
    if v[0] == "call" and v[1][0] == "attr" and v[1][2] == "isin" and v[2]:
        state_src = v[2][0]
    need(state_src, "is_state is not defined by index.isin(<states>)")
    v = defs["is_stochastic"]
    ok = False
    if v[0] == "comp" and is_term(v[2]) and v[2][0] == "boolop" and v[2][1] == "and":
        for x in v[2][2]:
            if x[0] == "cmp" and x[1] == ("in",) and x[2][1] == state_src:
                ok = True
    if ok:
        constraints.append(("or", ("not", ("col", "is_stochastic")), ("col", "is_state")))
        notes.append("is_stochastic => is_state (definition: 'var in model.states and ...')")
    v = defs["is_auxiliary"]
    aux_call = None
    if v[0] == "comp" and is_term(v[2]) and v[2][0] == "cmp" and v[2][1] == ("in",):
        aux_call = v[2][2][1]
    if aux_call is not None and callee_name(aux_call) == f"{UTIL}._get_auxiliary_variables":
        sv = kw(aux_call, "state_variables")
        afr = prog.frame(f"{UTIL}._get_auxiliary_variables")
        r = afr.ret
        # list(set(state_variables).difference(...)) -> subset of state_variables
        subset_ok = False
        for s in walk(r):
            if (
                s[0] == "call" and s[1][0] == "attr" and s[1][2] == "difference"
                and any(x == ("param", afr.qualname, "state_variables") for x in walk(s[1][1]))
            ):
                subset_ok = True
        if sv is not None and subset_ok and query_of(sv) is not None:
            f, _ = effective_formula(sv, {})
            constraints.append(("or", ("not", ("col", "is_auxiliary")), f))
            notes.append(f"is_auxiliary => {show_formula(f)} (auxiliary = state_variables minus ancestors)")
            # sparse => not auxiliary: filters are non-next functions whose ancestors are
            # removed from the auxiliary set
            if _filters_are_non_next(prog) and _aux_uses_non_next(afr):
                constraints.append(("or", ("not", ("col", "is_sparse")), ("not", ("col", "is_auxiliary"))))
                notes.append("is_sparse => ~is_auxiliary (filters are ~is_next functions; their ancestors are not auxiliary)")
    need(any("is_auxiliary =>" in n for n in notes), "universe: 'is_auxiliary => <state class>' not recognised (auxiliary = state_variables minus ancestors)")
    need(any("is_sparse => ~is_auxiliary" in n for n in notes), "universe: 'is_sparse => ~is_auxiliary' not recognised")
    # --- guarded constraints (build-phase validation that raises)
    g = _stochastic_guard(prog)
    # a universe with fewer constraints than the code guarantees contains classes that cannot occur; verdicts
    # on such classes would be false alarms: if a constraint cannot be read, nothing is decided with the universe
    need(ok, "universe: 'is_stochastic => is_state' not recognised in the definition of is_stochastic")
    need(g is not None, "universe: the build-phase guard on stochastic variables (set difference of two selections) not recognised")
    constraints.append(g[0])
    notes.append(g[1])
    uni = Universe(independent, derived, constraints)
    uni.notes = notes
    return uni


def _filters_are_non_next(prog):
    fr = prog.frame(f"{UTIL}.get_function_info")
    for s in (x for t in frame_terms(fr) for x in walk(t)):
        if s[0] == "setitem" and s[2] == ("const", "is_next"):
            txt = show(s[3])
            return "~" in txt and "is_filter" in txt and "&" in txt
    return False


def _aux_uses_non_next(afr):
    for t in frame_terms(afr):
        for s in walk(t):
            q = is_query(s)
            if q and parse(q[1]) == ("not", ("col", "is_next")):
                return True
    return False


def _stochastic_guard(prog):
    q = "lcm.input_processing.create_params_template._create_stochastic_transition_params"
    if q not in prog.funcs:
        return None
    fr = prog.frame(q)
    for conds, _exc, _node in fr.raises:
        for c in conds:
            # c is `invalid` = set(<query A>) - <set(query B)>
            so = as_setop(c)
            if so is not None and so[0] == "-":
                qa, qb = _find_query(so[1]), _find_query(so[2])
                if qa is not None and qb is not None:
                    fa, _ = effective_formula(qa, {})
                    fb, _ = effective_formula(qb, {})
                    return (
                        ("or", ("not", fa), fb),
                        f"{show_formula(fa)} => {show_formula(fb)} (guard raises in _create_stochastic_transition_params)",
                    )
    return None


def _find_query(t):
    for s in walk(t):
        if is_query(s):
            # return the outermost selection around it if any
            return s
    return None


def describe(uni, i):
    r = uni.rows[i]
    parts = [
        "state" if r["is_state"] else "choice",
        "continuous" if r["is_continuous"] else "discrete",
        "sparse" if r["is_sparse"] else "dense",
    ]
    if r.get("is_stochastic"):
        parts.append("stochastic")
    if r.get("is_auxiliary"):
        parts.append("auxiliary")
    return "{" + ",".join(parts) + "}"


def describe_set(uni, s):
    return "[" + " ".join(describe(uni, i) for i in sorted(s)) + "]"


# ======================================================================================
# role navigation
# ======================================================================================


class Roles:
    """Finds the query selections that play a given role, by data flow."""

    def __init__(self, prog):
        self.p = prog
        self.css = prog.frame("lcm.state_space.create_state_choice_space")
        self.glf = prog.frame("lcm.entry_point.get_lcm_function")

    def space_call(self):
        cs = calls_in_frame(self.p, self.css, "lcm.interfaces.Space")
        return need(cs[0] if cs else None, "create_state_choice_space builds no Space(...)")

    def dense(self):
        sp = self.space_call()
        dv = need(kw(sp, "dense_vars"), "Space(...) without dense_vars=")
        c = calls_in(dv, "lcm.state_space._create_value_grid")
        if c:
            return need(kw(c[0], "subset") or (c[0][2][1] if len(c[0][2]) > 1 else None),
                        "_create_value_grid without subset")
        qs = selections(dv)
        return need(qs[0] if qs else None, "dense_vars of the Space is not a grid selection")

    def sparse(self):
        sp = self.space_call()
        sv = need(kw(sp, "sparse_vars"), "Space(...) without sparse_vars=")
        c = calls_in(sv, "lcm.state_space.create_combination_grid")
        need(c, "sparse_vars of the Space is not built by create_combination_grid")
        return need(kw(c[0], "subset"), "create_combination_grid without subset=")

    def mask_subset(self):
        c = calls_in_frame(self.p, self.css, "lcm.state_space.create_filter_mask")
        need(c, "create_state_choice_space does not call create_filter_mask")
        return need(kw(c[0], "subset"), "create_filter_mask without subset=")

    def cont_choice(self):
        part = calls_in(self.glf.ret, "functools.partial")
        for pc in part:
            if pc[2] and pc[2][0] == ("func", "lcm.solve_brute.solve"):
                g = need(kw(pc, "continuous_choice_grids"), "solve partial without continuous_choice_grids")
                qs = selections(g)
                return need(qs[0] if qs else None, "continuous_choice_grids not derived from a query")
        raise AnalysisError("get_lcm_function: partial(solve, ...) not found")

    def n_sparse_states(self):
        c = calls_in_frame(self.p, self.css, "lcm.state_space.create_indexers_and_segments")
        need(c, "create_indexers_and_segments not called")
        return need(kw(c[0], "n_sparse_states"), "no n_sparse_states=")

    def space_info_call(self):
        c = calls_in_frame(self.p, self.css, "lcm.interfaces.SpaceInfo")
        return need(c[0] if c else None, "no SpaceInfo(...) built")

    def indexer_axis_names(self):
        c = calls_in_frame(self.p, self.css, "lcm.interfaces.IndexerInfo")
        need(c, "no IndexerInfo(...) built")
        return need(kw(c[0], "axis_names"), "IndexerInfo without axis_names=")


def _sel(uni, t, flags):
    f, _base = effective_formula(t, flags)
    return uni.select(f), f


def _base_universe(uni, t, flags):
    q = query_of(t)
    recv, _s = is_query(q)
    inner, _ = receiver_formula(recv, flags)
    return uni.all() if inner is None else uni.select(inner)


# ======================================================================================
# rules
# ======================================================================================


@rule("R2.QA0")
def qa_sites(ctx: Ctx):
    """Every query string parses and only uses known columns."""
    prog = ctx.prog
    frames = all_frames(prog)
    seen = set()
    for name, fr in frames.items():
        for t in frame_terms(fr) + loop_terms(prog, fr):
            for s in walk(t):
                q = is_query(s)
                if q is None:
                    continue
                key = (name.split("@")[0], q[1])
                if key in seen:
                    continue
                seen.add(key)
                ctx.count("query_sites")
                try:
                    f = parse(q[1])
                    cols = columns(f)
                    ok = cols <= VAR_COLS or cols <= FUNC_COLS
                    ctx.ob(f"QA0:{key[0]}:{q[1]}", True if ok else None, prog.where(s),
                           "query parses; columns known" if ok else f"unknown columns {sorted(cols - VAR_COLS - FUNC_COLS)}",
                           lhs=q[1], rhs=show_formula(f), nontrivial=False)
                except AnalysisError as e:
                    ctx.undecided(f"QA0:{key[0]}:{q[1]}", str(e), prog.where(s))
    ctx.floor("query_sites", 38)


@rule("R2.QA1")
def qa_partition(ctx: Ctx):
    """dense / sparse / continuous-choice selections partition the variables (C01, C12)."""
    prog = ctx.prog
    ctx.exhaustive_note = "R2: selections compared on ALL variable classes of the universe read from get_variable_info (exhaustive)"
    uni = build_universe(prog)
    ctx.count("variable_classes", len(uni.rows))
    R = Roles(prog)
    d, s, c = R.dense(), R.sparse(), R.cont_choice()
    reported = set()
    for last in (False, True):
        flags = {"is_last_period": last}
        ds, df = _sel(uni, d, flags)
        ss, sf = _sel(uni, s, flags)
        cs, cf = _sel(uni, c, flags)
        base = _base_universe(uni, d, flags)
        cs = cs & base
        tag = "last" if last else "nonlast"
        missing = base - (ds | ss | cs)
        ctx.ob(f"QA1:cover:{tag}", not missing, prog.where(d),
               "every variable class is mapped over (dense grid, sparse combination or continuous-choice grid)"
               if not missing else f"classes in no selection: {describe_set(uni, missing)}",
               lhs=f"{show_formula(df)} | {show_formula(sf)} | {show_formula(cf)}",
               rhs=f"all {len(base)} classes")
        for (na, a), (nb, b) in [(("dense", ds), ("sparse", ss)), (("dense", ds), ("contchoice", cs)),
                                 (("sparse", ss), ("contchoice", cs))]:
            inter = a & b
            if not inter:
                ctx.ob(f"QA1:disjoint:{na}-{nb}:{tag}", True, prog.where(d),
                       f"{na} and {nb} selections are disjoint on all {len(base)} classes")
            for i in sorted(inter):
                if (na, nb, i) in reported:
                    continue
                reported.add((na, nb, i))
                ctx.ob(f"QA1:disjoint:{na}-{nb}:{describe(uni, i)}", False, prog.where(s),
                       f"class {describe(uni, i)} is selected both as {na} and as {nb} variable: "
                       "it is passed twice to the mapped function",
                       lhs=na, rhs=nb)


@rule("R2.QA7")
def qa_restricted_from_ancestors(ctx: Ctx):
    """A variable is filter-restricted (is_sparse) iff it is an ANCESTOR of a filter in the DAG of the model functions --
    a variable that reaches a filter through an auxiliary function restricts the space as well."""
    from lcmsa.match import deep_walk

    prog = ctx.prog
    fr, defs = column_definitions(prog)
    t = need(defs.get("is_sparse"), "get_variable_info: is_sparse not defined")
    where = prog.where(t)
    q = f"{UTIL}.get_variable_info"
    calls = [s for s in deep_walk(prog, t) if s[0] == "call"]
    anc = [c for c in calls if (callee_name(c) or "").endswith("get_ancestors")]
    funcs = ("attr", ("param", q, fr.params[0] if fr.params else "model"), "functions")
    if anc:
        a0 = anc[0]
        src = a0[2][0] if a0[2] else kw(a0, "functions")
        tgt = a0[2][1] if len(a0[2]) > 1 else kw(a0, "targets")
        ok_src = src == funcs
        # the targets are the filters: a loop / comprehension over function_info.query("is_filter")
        names = None
        if tgt is not None and tgt[0] == "loopvar" and tgt[1] in prog.loops:
            names = prog.loops[tgt[1]].iter
        elif tgt is not None and tgt[0] == "bv":
            # the variable of a comprehension / generator: its iterable
            for c in deep_walk(prog, t):
                if c[0] == "comp" and any(g[0] == tgt for g in c[3]) and any(x == a0 for x in walk(c[2])):
                    names = next(g[1] for g in c[3] if g[0] == tgt)
                    break
        elif tgt is not None:
            names = tgt
        ok_tgt = None
        if names is not None:
            try:
                f_, _ = effective_formula(names, {})
                ok_tgt = show_formula(f_) == "is_filter"
            except AnalysisError:
                ok_tgt = None
        verdict = False if (not ok_src or ok_tgt is False) else True if ok_tgt else None
        ctx.ob("QA7:restricted-iff-ancestor-of-a-filter", verdict, where,
               "is_sparse marks the ancestors (in the DAG of all model functions) of the functions selected by 'is_filter'"
               if verdict else "the ancestors are not computed in the model's function DAG for exactly the filter functions"
               if verdict is False else "targets of get_ancestors not recognised", lhs=show(a0)[:160])
    else:
        direct = [c for c in calls if callee_name(c) in ("inspect.signature", "dags.get_free_arguments", "builtins.getattr")]
        ctx.ob("QA7:restricted-iff-ancestor-of-a-filter", False if direct else None, where,
               "is_sparse is derived from the filters' own arguments only: a variable that reaches a filter through an "
               "auxiliary function is not marked as restricted and keeps a dense axis" if direct else
               "definition of is_sparse not recognised (no get_ancestors call reaches it)", lhs=show(t)[:200])
    ctx.count("columns", 1)


@rule("R2.QA2")
def qa_order(ctx: Ctx):
    """The canonical variable order is a partition with the precedences consumers need."""
    prog = ctx.prog
    ctx.exhaustive_note = "R2: selections compared on ALL variable classes of the universe read from get_variable_info (exhaustive)"
    uni = build_universe(prog)
    fr = prog.frame(f"{UTIL}.get_variable_info")
    order = None
    for s_ in walk(fr.ret):
        if s_[0] == "sub" and s_[1][0] == "attr" and s_[1][2] == "loc":
            order = s_[2]
            break  # outermost .loc[...] of the returned value
    need(order, "get_variable_info does not return table.loc[<order>]")
    if callee_name(order) in ("builtins.sorted", "builtins.reversed") or (callee_name(order) == "builtins.list" and order[2] and callee_name(order[2][0]) in ("builtins.sorted", "builtins.reversed", "builtins.set")):
        ctx.ob("QA2:order:applied", False, prog.where(fr.ret),
               f"the table is re-indexed by {show(order)[:50]}: the canonical block order is destroyed", lhs=fr.ret)
        return
    qs = []

    def flatten(t):
        if t[0] == "binop" and t[1] == "+":
            flatten(t[2])
            flatten(t[3])
        elif t[0] == "mut" and t[2] == "extend":
            flatten(t[1])
            flatten(t[3][0])
        elif t[0] in ("list",) and not t[1]:
            return
        elif callee_name(t) == "builtins.list" and len(t[2]) == 1 and _chain_parts(t[2][0]) is not None:
            # list(itertools.chain(a, b, ...)) / chain.from_iterable(f(c) for c in (c1, c2, ...)): same concatenation
            for part in _chain_parts(t[2][0]):
                flatten(part)
        else:
            q = query_of(t)
            if q is None:
                raise AnalysisError(f"'order' is built from something that is not a query selection: {show(t)[:100]}")
            qs.append(q)

    flatten(order)
    ctx.count("order_queries", len(qs))
    sels = [_sel(uni, q, {})[0] for q in qs]
    union = frozenset().union(*sels) if sels else frozenset()
    missing = uni.all() - union
    ctx.ob("QA2:order:cover", not missing, prog.where(order),
           "order covers every variable class" if not missing else f"not in order: {describe_set(uni, missing)}")
    dup = False
    for i in range(len(sels)):
        for j in range(i + 1, len(sels)):
            inter = sels[i] & sels[j]
            if inter:
                dup = True
                ctx.ob(f"QA2:order:disjoint:{i}-{j}", False, prog.where(order),
                       f"classes {describe_set(uni, inter)} appear twice in the canonical order")
    if not dup:
        ctx.ob("QA2:order:disjoint", True, prog.where(order), f"the {len(qs)} order blocks are pairwise disjoint")
    pos = {}
    for k, s in enumerate(sels):
        for i in s:
            pos.setdefault(i, k)
    # the returned frame must be indexed by that order
    ret_ok = any(s[0] == "sub" and s[2] == order for s in walk(fr.ret))
    ctx.ob("QA2:order:applied", ret_ok, prog.where(fr.ret),
           "get_variable_info returns info.loc[order]" if ret_ok else "the table is not re-indexed by 'order'",
           lhs=fr.ret)

    def before(fa, fb, key, why):
        A, B = uni.select(parse(fa)), uni.select(parse(fb))
        bad = [(a, b) for a in A for b in B if a in pos and b in pos and not pos[a] < pos[b]]
        ctx.ob(f"QA2:prec:{key}", not bad, prog.where(order),
               f"{fa} precedes {fb}: {why}" if not bad else
               f"{describe(uni, bad[0][0])} does not precede {describe(uni, bad[0][1])}: {why}",
               lhs=fa, rhs=fb)

    before("is_sparse & is_state", "is_sparse & is_choice", "sparse-states-first",
           "create_indexers_and_segments treats the first n_sparse_states mask axes as states")
    before("is_dense & is_discrete & is_state", "is_dense & is_continuous & is_state", "discrete-before-continuous",
           "value arrays: lookup axes must precede interpolation axes (documented layout)")
    ctx.floor("order_queries", 4)
    # grids / gridspecs follow that order
    for fn in ("get_grids", "get_gridspecs"):
        g = prog.frame(f"{UTIL}.{fn}")
        r = g.ret
        ok = False
        if r[0] == "comp" and r[1] == "dict":
            it = r[3][0][1]
            # iterates variable_info.index.tolist() of get_variable_info(model)
            ok = any(callee_name(s) == f"{UTIL}.get_variable_info" for s in walk(it)) and "sorted" not in show(it)
        ctx.ob(f"QA2:{fn}:order", ok if ok else None, prog.where(r),
               f"{fn} returns a dict keyed in variable_info order" if ok else f"{fn}: key order not recognised",
               lhs=r)


@rule("R2.QA3")
def qa_siblings(ctx: Ctx):
    """Pairs of selections that must denote the same variables."""
    prog = ctx.prog
    ctx.exhaustive_note = "R2: selections compared on ALL variable classes of the universe read from get_variable_info (exhaustive)"
    uni = build_universe(prog)
    R = Roles(prog)

    def eq(key, ta, tb, why, flagsets=({"is_last_period": False}, {"is_last_period": True}),
           extra_a=None, extra_b=None):
        for flags in flagsets:
            tag = "last" if flags.get("is_last_period") else "nonlast"
            fa, _ = effective_formula(ta, flags)
            fb, _ = effective_formula(tb, flags)
            if extra_a:
                fa = conj(fa, parse(extra_a))
            if extra_b:
                fb = conj(fb, parse(extra_b))
            sa, sb = uni.select(fa), uni.select(fb)
            ok = sa == sb
            ctx.ob(f"QA3:{key}:{tag}", ok, prog.where(ta),
                   why if ok else f"{why}: differ on {describe_set(uni, sa ^ sb)}",
                   lhs=show_formula(fa), rhs=show_formula(fb))
            ctx.count("sibling_pairs")

    # 1. mask axes == combination grid axes
    eq("mask-vs-combination", R.mask_subset(), R.sparse(),
       "filter mask and combination grid enumerate the same restricted variables")
    # 2. discrete problem's axis list == [sparse axis?] + space's dense grid selection
    dfr = prog.frame("lcm.discrete_problem._determine_dense_discrete_choice_axes")
    info = choice_axes_info(dfr.ret, prog)
    axes = info["axes"]
    gfr = prog.frame("lcm.discrete_problem.get_solve_discrete_problem")
    call = calls_in_frame(prog, gfr, "lcm.discrete_problem._determine_dense_discrete_choice_axes")
    need(call, "get_solve_discrete_problem does not call _determine_dense_discrete_choice_axes")
    vi_arg = call[0][2][0] if call[0][2] else kw(call[0], "variable_info")
    if axes[0] in ("phi", "ifexp"):
        lead_flag, with_lead, without = axes[1], axes[2], axes[3]
        need(with_lead[0] == "list" and len(with_lead[1]) == 2 and with_lead[1][0][0] == "const"
             and with_lead[1][1] == ("star", without),
             "axis list with leading axis is not ['<sparse>', *dense_vars]")
        dv = without
    else:
        lead_flag, dv = None, axes
    css = R.css
    space_flag = None
    sv = kw(R.space_call(), "sparse_vars")
    if sv is not None and sv[0] in ("phi", "ifexp"):
        space_flag = sv[1]
    for last in (False, True):
        flags = {"is_last_period": last}
        tag = "last" if last else "nonlast"
        inner, _ = receiver_formula(vi_arg, flags)
        f_dp, _ = effective_formula(dv, flags)
        if inner is not None:
            f_dp = conj(inner, f_dp)
        f_sp, _ = effective_formula(R.dense(), flags)
        sa, sb = uni.select(f_dp), uni.select(f_sp)
        ctx.ob(f"QA3:discrete-problem-axes-vs-space:{tag}", sa == sb, prog.where(dv),
               "axes assumed by the discrete problem == dense grids of the space" if sa == sb
               else f"differ on {describe_set(uni, sa ^ sb)}",
               lhs=show_formula(f_dp), rhs=show_formula(f_sp))
        ctx.count("sibling_pairs")
        # leading (restricted) axis present <=> the space has restricted variables
        if lead_flag is not None and space_flag is not None:
            f_lead = exists_formula(lead_flag, flags)
            if inner is not None:
                f_lead = conj(inner, f_lead)
            f_space = exists_formula(space_flag, flags)
            f_sparse, _ = effective_formula(R.sparse(), flags)
            a, b, c = uni.select(f_lead), uni.select(f_space), uni.select(f_sparse)
            ok = a == b == c
            ctx.ob(f"QA3:leading-axis-flag:{tag}", ok, prog.where(lead_flag),
                   "the discrete problem counts a leading restricted axis exactly when the space has restricted variables"
                   if ok else "the discrete problem's 'has sparse axis' test differs from the space's: "
                   f"{describe_set(uni, (a ^ b) | (b ^ c))} shift every choice axis by one",
                   lhs=show_formula(f_lead), rhs=show_formula(f_space))
            ctx.count("sibling_pairs")
        else:
            ctx.undecided(f"QA3:leading-axis-flag:{tag}", "leading-axis flag not recognised", prog.where(axes))
    need(info["offset"] == 0, "discrete problem: unexpected index offset")
    # 3. simulate: dense choice axes vs data space dense choices
    sfr = prog.frame("lcm.simulate.determine_discrete_dense_choice_axes")
    dsc = prog.frame("lcm.simulate.create_data_scs")
    sinfo = choice_axes_info(sfr.ret, prog)
    sim_axes = sinfo["axes"]
    ctx.ob("QA3:sim-axis-offset", sinfo["offset"] == 1, prog.where(sinfo["where"]),
           "simulate: dense choice axis k of the ccv array is at position k+1 (axis 0 = agents x sparse choices)"
           if sinfo["offset"] == 1 else f"offset {sinfo['offset']} != 1: the leading axis always exists in the data space",
           lhs=str(sinfo["offset"]), rhs="1")
    space = calls_in_frame(prog, dsc, "lcm.interfaces.Space")
    need(space, "create_data_scs builds no Space")
    dense_choices = need(kw(space[0], "dense_vars"), "data Space without dense_vars")
    dq = selections(dense_choices)
    need(dq, "create_data_scs: dense choices not selected by a query")
    eq("sim-dense-axes-vs-data-space", sim_axes, dq[0],
       "simulate: axes of the arg-max == dense grids of the data space", flagsets=({},))
    eq("sim-dense-choices-are-dense-discrete-choices", dq[0], R.dense(),
       "data-space dense variables == dense discrete choices of the model",
       flagsets=({"is_last_period": False},), extra_b="is_choice")
    # 4. sparse choices
    sparse_choices = need(kw(space[0], "sparse_vars"), "data Space without sparse_vars")
    sq = []
    for c in calls_in_frame(prog, dsc, "lcm.simulate.dict_product"):
        sq = deep_selections(prog, c[2][0] if c[2] else kw(c, "d")) or sq
    if not sq:
        # no dict_product helper: the combination grid is built in place from the selected grids
        sq = [q for q in deep_selections(prog, sparse_choices) if "function_info" not in show(q)]
    need(sq, "create_data_scs: sparse choices not selected by a query")
    simfr = prog.frame("lcm.simulate.simulate")
    scv = selections(simfr.env.get("sparse_choice_variables", ()))
    if not scv:
        # role: the iterable of the dict comprehension that builds the reported sparse choices
        for t in loop_terms(prog, simfr):
            for s in walk(t):
                if s[0] == "comp" and s[1] == "dict" and selections(s[3][0][1]):
                    scv = selections(s[3][0][1])
    need(scv, "simulate: sparse choice selection not found")
    eq("sim-sparse-choices-vs-data-space", scv[0], sq[0],
       "simulate reports exactly the sparse choices of the data space", flagsets=({},))
    eq("sim-sparse-choices-vs-model", sq[0], R.sparse(),
       "data-space sparse choices == restricted choices of the model",
       flagsets=({"is_last_period": False},), extra_b="is_choice")
    hs = selections(dsc.env.get("has_sparse_choice_vars", ()))
    if hs:
        eq("sim-has-sparse-flag", hs[0], sq[0], "has_sparse_choice_vars tests the selection that is used",
           flagsets=({},))
    # 4b. the segments / indexers exist exactly when the rows of the space are filtered (same existence flag)
    scs = prog.frame("lcm.state_space.create_state_choice_space")
    try:
        sp_calls = calls_in_frame(prog, scs, "lcm.interfaces.Space")
        sv = kw(sp_calls[0], "sparse_vars") if sp_calls else None
        seg = next((x for x in walk(scs.ret) if x[0] in ("phi", "ifexp") and any(
            callee_name(y) == "lcm.state_space.create_indexers_and_segments" for y in walk(x[2])) and not any(
            callee_name(y) == "lcm.state_space.create_indexers_and_segments" for y in walk(x[3]))
            and x[3] == ("const", None) and x[2][0] == "sub" and callee_name(x[2][1]) == "lcm.state_space.create_indexers_and_segments"), None)
        if sv is not None and sv[0] in ("phi", "ifexp") and seg is not None:
            for flags in ({"is_last_period": False}, {"is_last_period": True}):
                fa_, fb_ = exists_formula(sv[1], flags), exists_formula(seg[1], flags)
                a_, b_ = uni.select(fa_), uni.select(fb_)
                tag = "last" if flags["is_last_period"] else "nonlast"
                ctx.ob(f"QA3:segments-flag-vs-filter-flag:{tag}", bool(a_) == bool(b_) and a_ == b_, prog.where(seg),
                       "indexers and segments are built exactly when the space is filtered (same existence test)" if a_ == b_ else
                       f"rows are filtered when some variable is {show_formula(fa_)}, but indexers/segments are built when some variable is "
                       f"{show_formula(fb_)}: for {describe_set(uni, a_ ^ b_)} the space has filtered rows without segments (or vice versa)",
                       lhs=show_formula(fa_), rhs=show_formula(fb_))
                ctx.count("sibling_pairs")
        else:
            ctx.undecided("QA3:segments-flag-vs-filter-flag", "flags guarding the filtered rows / the segments not recognised", prog.where(scs.ret))
    except AnalysisError as e:
        ctx.undecided("QA3:segments-flag-vs-filter-flag", f"flags not recognised: {e}")
    # 5. n_sparse_states vs indexer axis names vs restricted states
    eq("n-sparse-states-vs-indexer-axes", R.n_sparse_states(), R.indexer_axis_names(),
       "number of state axes of the mask == axes of the state indexer")
    eq("indexer-axes-are-restricted-states", R.indexer_axis_names(), R.sparse(),
       "indexer axes == restricted states", extra_b="is_state")
    ctx.floor("sibling_pairs", 9)


@rule("R2.QA4")
def qa_value_axes(ctx: Ctx):
    """axis_names == dense state axes; lookup/interpolation cover the states."""
    prog = ctx.prog
    ctx.exhaustive_note = "R2: selections compared on ALL variable classes of the universe read from get_variable_info (exhaustive)"
    uni = build_universe(prog)
    R = Roles(prog)
    si = R.space_info_call()
    ax = need(kw(si, "axis_names"), "SpaceInfo without axis_names")
    qs = selections(ax)
    need(qs, "axis_names not derived from a query")
    look = need(kw(si, "lookup_info"), "SpaceInfo without lookup_info")
    interp = need(kw(si, "interpolation_info"), "SpaceInfo without interpolation_info")
    lq = selections(look)
    iq = selections(interp)
    need(lq and iq, "lookup_info / interpolation_info not derived from queries")
    for last in (False, True):
        flags = {"is_last_period": last}
        tag = "last" if last else "nonlast"
        fa, _ = effective_formula(qs[0], flags)
        fd, _ = effective_formula(R.dense(), flags)
        fd = conj(fd, ("col", "is_state"))
        sa, sd = uni.select(fa), uni.select(fd)
        ctx.ob(f"QA4:axis-names:{tag}", sa == sd, prog.where(ax),
               "axis_names == state axes that remain after reducing the choice axes" if sa == sd
               else f"differ on {describe_set(uni, sa ^ sd)}", lhs=show_formula(fa), rhs=show_formula(fd))
        base = _base_universe(uni, qs[0], flags)
        states = uni.select(("col", "is_state")) & base
        ls, _ = _sel(uni, lq[0], flags)
        is_, _ = _sel(uni, iq[0], flags)
        ctx.ob(f"QA4:lookup-interp-cover:{tag}", (ls | is_) >= states and not (ls & is_), prog.where(look),
               "every state is either looked up or interpolated, never both"
               if (ls | is_) >= states and not (ls & is_) else
               f"uncovered {describe_set(uni, states - (ls | is_))} / both {describe_set(uni, ls & is_)}")
        # interpolated axes must be continuous, looked-up axes discrete
        cont = uni.select(("col", "is_continuous"))
        ctx.ob(f"QA4:interp-is-continuous:{tag}", is_ <= cont and not (ls & cont), prog.where(interp),
               "interpolation_info selects continuous, lookup_info discrete states"
               if is_ <= cont and not (ls & cont) else "lookup/interpolation selections mix variable kinds")
    # has_sparse_states prepends 'state_index'
    txt = show(ax)
    pre = "state_index" in txt
    ctx.ob("QA4:state-index-first", pre if pre else None, prog.where(ax),
           "'state_index' is prepended to the dense state axes when restricted states exist"
           if pre else "state_index axis not recognised", lhs=ax)
    if ax[0] == "phi":
        a = ax[2]
        first_ok = a[0] == "list" and a[1] and a[1][0] == ("const", "state_index")
        ctx.ob("QA4:state-index-position", first_ok, prog.where(ax),
               "the restricted-state axis is the FIRST axis name" if first_ok
               else "the restricted-state axis is not listed first although spacemap puts it first", lhs=a)
    # choice axes of the discrete problem
    dfr = prog.frame("lcm.discrete_problem._determine_dense_discrete_choice_axes")
    info = choice_axes_info(dfr.ret, prog)
    cq = selections(info["choice"])
    need(cq, "_determine_dense_discrete_choice_axes: choice set is not a query")
    f_c, _ = effective_formula(cq[0], {})
    fd, _ = effective_formula(R.dense(), {"is_last_period": False})
    a = uni.select(conj(f_c, fd))
    b = uni.select(conj(("col", "is_choice"), fd))
    ctx.ob("QA4:choice-axes", a == b, prog.where(cq[0]),
           "axes reduced by the discrete problem are exactly the dense discrete choice axes" if a == b
           else f"reduced axes differ from the choice axes on {describe_set(uni, a ^ b)}",
           lhs=show_formula(f_c), rhs="is_choice")


@rule("R2.QA5")
def qa_stochastic_sets(ctx: Ctx):
    prog = ctx.prog
    uni = build_universe(prog)
    q = "lcm.input_processing.create_params_template._create_stochastic_transition_params"
    fr = prog.frame(q)
    dsv = vv = None
    for conds, _e, _n in fr.raises:
        for c in conds:
            so = as_setop(c)
            if so is not None and so[0] == "-" and selections(so[2]) and dsv is None:
                dsv = so[2]
    for lp in [l for lid, l in prog.loops.items() if l.func == q and "@" not in lid]:
        for v in lp.next.values():
            for s_ in walk(v):
                so = as_setop(s_)
                if so is not None and so[0] == "-" and callee_name(so[1]) == "builtins.set" and vv is None \
                        and any(callee_name(x) == "inspect.signature" for x in walk(so[1])):
                    vv = so[2]
    need(dsv is not None and vv is not None, "validation sets not found")
    f1, _ = effective_formula(selections(dsv)[0], {})
    ok1 = uni.select(f1) == uni.select(parse("is_state & is_discrete"))
    ctx.ob("QA5:discrete-state-vars", ok1, prog.where(dsv),
           "stochastic variables are validated against the discrete states", lhs=show_formula(f1),
           rhs="is_state & is_discrete")
    vq = selections(vv)
    need(vq, "valid_vars not from a query")
    f2, _ = effective_formula(vq[0], {})
    ok2 = uni.select(f2) == uni.select(parse("is_discrete"))
    has_period = ("const", "_period") in set(walk(vv))
    ctx.ob("QA5:valid-dependencies", ok2 and has_period, prog.where(vv),
           "dependencies of a stochastic transition are validated against discrete variables + '_period'",
           lhs=vv, rhs="is_discrete | {_period}")


@rule("R2.QA6")
def qa_indexer_axes_are_labels(ctx: Ctx):
    """Every axis of the state indexer has a label translator (C14, C12)."""
    prog = ctx.prog
    ctx.exhaustive_note = "R2: selections compared on ALL variable classes of the universe read from get_variable_info (exhaustive)"
    uni = build_universe(prog)
    R = Roles(prog)
    si = R.space_info_call()
    look = need(kw(si, "lookup_info"), "SpaceInfo without lookup_info")
    lq = selections(look)
    need(lq, "lookup_info not from a query")
    flags = {"is_last_period": False}
    a, fa = _sel(uni, R.indexer_axis_names(), flags)
    b, fb = _sel(uni, lq[0], flags)
    bad = a - b
    if not bad:
        ctx.ob("QA6:indexer-axes-in-lookup", True, prog.where(look),
               "every indexer axis is a looked-up (discrete) state", lhs=show_formula(fa), rhs=show_formula(fb))
    for i in sorted(bad):
        ctx.ob(f"QA6:indexer-axis-without-translator:{describe(uni, i)}", False, prog.where(look),
               f"a restricted state of class {describe(uni, i)} is an axis of the state indexer but has no "
               "label translator (__<var>_pos__): the value function representation cannot be built",
               lhs=show_formula(fa), rhs=show_formula(fb))
