"""R10 SIG -- signature discipline: internal call sites bind their callee's parameters;
the signature of u_and_f; with_signature closures rebind their arguments by name."""

from __future__ import annotations

import ast

from lcmsa.core import AnalysisError, callee_name, is_term, kw, show, walk
from lcmsa.match import all_frames, frame_terms, loop_terms, need
from lcmsa.report import Ctx, rule
from lcmsa.rules_bellman import UF


def _params(fnode, is_method):
    a = fnode.args
    pos = [x.arg for x in a.posonlyargs + a.args]
    if is_method and pos:
        pos = pos[1:]
    n_def = len(a.defaults)
    required_pos = pos[: len(pos) - n_def] if n_def <= len(pos) else []
    kwonly = [x.arg for x in a.kwonlyargs]
    required_kw = [x.arg for x, d in zip(a.kwonlyargs, a.kw_defaults, strict=True) if d is None]
    posonly = {x.arg for x in a.posonlyargs}
    return pos, required_pos, kwonly, required_kw, a.vararg is not None, a.kwarg is not None, posonly


def _dataclass_fields(cnode):
    fields, required = [], []
    for n in cnode.body:
        if isinstance(n, ast.AnnAssign) and isinstance(n.target, ast.Name):
            if n.target.id == "_":
                continue
            fields.append(n.target.id)
            if n.value is None:
                required.append(n.target.id)
    return fields, required


def check_call(prog, call):
    """Return None if fine / not checkable, else a message."""
    f = call[1]
    pargs, kws = call[2], call[3]
    if any(p[0] == "star" for p in pargs) or any(k is None for k, _ in kws):
        return None
    names = [k for k, _ in kws]
    if f[0] == "func":
        info = prog.funcs.get(f[1])
        if info is None:
            return None
        pos, req_pos, kwonly, req_kw, vararg, kwarg, posonly = _params(info.node, False)
    elif f[0] == "closure":
        info = prog.closures[f[2]][0]
        pos, req_pos, kwonly, req_kw, vararg, kwarg, posonly = _params(info.node, False)
    elif f[0] == "class" and f[1].startswith("lcm.") and f[1] in prog.classes:
        cnode = prog.classes[f[1]]
        if any(isinstance(n, ast.FunctionDef) and n.name == "__init__" for n in cnode.body):
            init = next(n for n in cnode.body if isinstance(n, ast.FunctionDef) and n.name == "__init__")
            pos, req_pos, kwonly, req_kw, vararg, kwarg, posonly = _params(init, True)
        else:
            is_dc = any("dataclass" in ast.unparse(d) for d in cnode.decorator_list)
            if not is_dc:
                return None
            fields, required = _dataclass_fields(cnode)
            pos, req_pos, kwonly, req_kw, vararg, kwarg, posonly = fields, required, [], [], False, False, set()
    else:
        return None
    if len(pargs) > len(pos) and not vararg:
        return f"{len(pargs)} positional arguments for {len(pos)} positional parameters"
    bound = set(pos[: len(pargs)])
    for n in names:
        if n in bound:
            return f"parameter '{n}' is given twice"
        if n in posonly:
            return f"positional-only parameter '{n}' passed by keyword"
        if n not in pos and n not in kwonly and not kwarg:
            return f"unexpected keyword argument '{n}'"
        bound.add(n)
    missing = [p for p in req_pos + req_kw if p not in bound]
    if missing:
        return f"required parameter(s) {missing} not passed"
    return None


@rule("R10.ARITY")
def call_arity(ctx: Ctx):
    """Every call of an lcm function / closure / dataclass binds exactly the callee's parameters."""
    prog = ctx.prog
    bad = []
    n = 0
    seen = set()
    for name, fr in all_frames(prog).items():
        if name.startswith(("lcmref", "lcmfix")):
            continue
        q = name.split("@")[0]
        for t in frame_terms(fr) + loop_terms(prog, fr):
            for s in walk(t):
                if s[0] != "call" or (q, s) in seen:
                    continue
                f = s[1]
                if f[0] not in ("func", "closure", "class"):
                    continue
                if f[0] in ("func", "class") and not f[1].startswith("lcm."):
                    continue
                seen.add((q, s))
                n += 1
                msg = check_call(prog, s)
                if msg:
                    tgt = f[1] if f[0] != "closure" else f[1]
                    bad.append((q, tgt, msg, s))
    ctx.count("internal_call_sites", n)
    done = set()
    for q, tgt, msg, s in bad:
        key = f"ARITY:{q.removeprefix('lcm.')}->{tgt.removeprefix('lcm.')}:{msg.split(' ')[0]}"
        if key in done:
            continue
        done.add(key)
        ctx.ob(key, False, prog.where(s), f"{q} calls {tgt}: {msg} (TypeError at run time)", lhs=show(s)[:200])
    if not bad:
        ctx.ob("ARITY:all-internal-calls-bind", True, "",
               f"all {n} statically resolved calls of lcm functions, closures and dataclasses pass every required "
               "parameter and no unknown keyword")
    ctx.floor("internal_call_sites", 60)


@rule("R10.SIG")
def u_and_f_signature(ctx: Ctx):
    """The signature of u_and_f and how the closures consume it (SIG1, D9 regression)."""
    prog = ctx.prog
    fr = prog.frame(UF)
    from lcmsa.match import product_closures

    cids = product_closures(prog, fr)
    need(len(cids) == 2, "u_and_f closures not found")
    sigs = []
    for t in fr.env.values():
        for s in walk(t):
            if callee_name(s) == "dags.signature.with_signature" and kw(s, "args") is not None and s not in sigs:
                sigs.append(s)
    ok = len(sigs) >= 1
    ctx.ob("SIG1:u_and_f:has-signature", ok, prog.node_where(fr.module, prog.funcs[UF].node),
           "u_and_f is given an explicit signature (with_signature(args=...))" if ok else
           "u_and_f has no explicit signature any more: dispatchers cannot derive positions", lhs=str(len(sigs)))
    need(ok, "no signature")
    # every closure: decorated with the signature, and rebinds by name with the same list
    for cid in cids:
        info, snapshot, _c = prog.closures[cid]
        cf = prog.closure_frame(cid)
        where = prog.node_where(cf.module, info.node)
        deco = [ast.unparse(d) for d in info.node.decorator_list]
        name_term = None
        for t in fr.env.values():
            for s in walk(t):
                if s[0] == "call" and callee_name(s[1]) == "dags.signature.with_signature" and s[2] and s[2][0][0] == "closure" and s[2][0][2] == cid:
                    name_term = kw(s[1], "args")
        tag = "last" if any(c == ("param", UF, "is_last_period") for c in prog.closures[cid][2]) else "nonlast"
        ctx.ob(f"SIG1:u_and_f:{tag}:decorated", name_term is not None, where,
               "the closure is decorated with with_signature(args=arg_names)" if name_term is not None else
               f"the closure is not decorated with with_signature(args=...) (decorators: {deco})", lhs=str(deco))
        norm_calls = [s for t in frame_terms(cf) for s in walk(t) if callee_name(s) in ("lcm.functools.all_as_kwargs", "lcm.functools.all_as_args")]
        ok = bool(norm_calls) and name_term is not None and all(
            (kw(c, "arg_names") or (c[2][2] if len(c[2]) > 2 else None)) == name_term for c in norm_calls)
        args_ok = bool(norm_calls) and all(
            (c[2][0] if c[2] else kw(c, "args")) == ("param", info.qualname, info.node.args.vararg.arg if info.node.args.vararg else "?")
            and (c[2][1] if len(c[2]) > 1 else kw(c, "kwargs")) == ("param", info.qualname, info.node.args.kwarg.arg if info.node.args.kwarg else "?")
            for c in norm_calls)
        ctx.ob(f"SIG1:u_and_f:{tag}:rebinds-by-name", ok and args_ok, where,
               "the closure rebinds (*args, **kwargs) by name with the very list that defines its signature" if ok and args_ok
               else "the closure does not normalise its arguments with all_as_kwargs(args, kwargs, arg_names=<signature list>)",
               lhs=show(norm_calls[0])[:160] if norm_calls else "missing")
    # the name list itself
    a = kw(sigs[0], "args")
    ctx.count("signature_lists", len(sigs))
    ok_shape = a[0] == "comp" and a[1] == "list" and len(a[3]) == 1
    need(ok_shape, "arg_names is not a filtered list comprehension")
    tg, it, conds = a[3][0]
    # filter: drop names with the PREFIX next_
    prefix_ok = conds == (("unop", "not", ("call", ("attr", tg, "startswith"), (("const", "next_"),), ())),)
    substring = conds and conds[0][0] == "cmp" and conds[0][1] == ("not in",) and conds[0][2][0] == ("const", "next_")
    ctx.ob("SIG:u_and_f:next-prefix-filter", True if prefix_ok else False if substring or not conds else None, prog.where(a),
           "next-period names are removed from the signature by PREFIX (startswith('next_')), like every producer of the convention"
           if prefix_ok else
           ("names CONTAINING 'next_' are removed from the signature (substring test): a variable such as 'annext_wealth' "
            "disappears from u_and_f (D9)" if substring else f"filter of the signature is {show(conds)[:80]}"),
           lhs=show(conds)[:120], rhs="not arg.startswith('next_')")
    # source set: {value name} | union(relevant) - {_period}
    src = show(it)
    has_vf = ("const", "vf_arr") in set(walk(it)) or any(s == ("param", UF, "name_of_values_on_grid") for s in walk(it))
    minus_period = any(s[0] == "binop" and s[1] == "-" and ("const", "_period") in set(walk(s[3])) for s in walk(it))
    union = any(callee_name(s) == "lcm.functools.get_union_of_arguments" for s in walk(it))
    ctx.ob("SIG:u_and_f:name-set", has_vf and minus_period and union, prog.where(a),
           "signature = {vf_arr} | arguments of the component functions - {_period}" if has_vf and minus_period and union else
           f"signature source changed: vf_arr={has_vf}, minus _period={minus_period}, union of component arguments={union}",
           lhs=src[:200])
    # the value array name passed by the entry point is the one in the signature
    glf = prog.frame("lcm.entry_point.get_lcm_function")
    ufc = [s for t in loop_terms(prog, glf) for s in walk(t) if callee_name(s) == UF]
    if ufc:
        nm = kw(ufc[0], "name_of_values_on_grid")
        ctx.ob("NAME:vf_arr", nm == ("const", "vf_arr"), prog.where(ufc[0]),
               "the value array is named 'vf_arr' in the representation, in u_and_f's signature and at the call sites"
               if nm == ("const", "vf_arr") else f"name_of_values_on_grid={show(nm)} but u_and_f's signature and solve pass 'vf_arr'",
               lhs=nm or "missing", rhs="'vf_arr'")
    # membership operators of the states / choices selections inside the closures
    for cid in cids:
        cf = prog.closure_frame(cid)
        tag = "last" if any(c == ("param", UF, "is_last_period") for c in prog.closures[cid][2]) else "nonlast"
        comps = []
        for t in frame_terms(cf):
            for s in walk(t):
                if s[0] == "comp" and s[1] == "dict" and s[3][0][2] and s not in comps and callee_name(s[3][0][1]) is None \
                        and s[3][0][1][0] == "call" and s[3][0][1][1][0] == "attr" and s[3][0][1][1][2] == "items":
                    comps.append(s)
        ok = bool(comps) and all(
            c[3][0][2][0][0] == "cmp" and c[3][0][2][0][1] == ("in",) and c[3][0][2][0][2][0] == c[3][0][0][1][0]
            and c[2] == (c[3][0][0][1][0], c[3][0][0][1][1]) for c in comps)
        ctx.ob(f"SIG:u_and_f:{tag}:argument-filters", ok if comps else None, prog.node_where(cf.module, prog.closures[cid][0].node),
               "states / choices / value-function arguments are selected by membership (k in <names>) and passed unchanged"
               if ok else "an argument filter of u_and_f is not 'k in <names>' or changes the values" if comps else
               "the argument filters of u_and_f were not found (selection written in another way)", lhs=str(len(comps)))
    ctx.floor("signature_lists", 1)


@rule("R16.DEFAULTS")
def no_decision_on_defaults(ctx: Ctx):
    """lcm treats every argument of a user function alike: whether an argument has a default value never decides
    anything (template entries, required keyword arguments, positional binding).  Expected count: zero; the fixture
    holds a positive control."""
    from lcmsa.match import all_frames, frame_terms, loop_terms
    from lcmsa.rules_eff import ensure_fixture

    prog = ctx.prog
    ensure_fixture(prog)

    def scan(frames):
        hits = []
        for name, fr in sorted(frames.items()):
            for t in frame_terms(fr) + loop_terms(prog, fr):
                for s_ in walk(t):
                    is_default_read = s_[0] == "attr" and s_[2] == "default" and any(
                        callee_name(x) == "inspect.signature" or (x[0] == "bv") for x in walk(s_[1]))
                    is_empty = s_[0] in ("glob", "attr") and ("Parameter.empty" in show(s_) or (s_[0] == "attr" and s_[2] == "empty"
                                                                                              and any(x[0] == "bv" for x in walk(s_[1]))))
                    if is_default_read or is_empty:
                        hits.append((name.split("@")[0], s_))
        return hits

    KIND_READERS = ("lcm.functools",)  # allow_only_kwargs / allow_args and their helpers convert between calling conventions

    def scan_kind(frames):
        hits = []
        for name, fr in sorted(frames.items()):
            if any(name.split("@")[0] == k or name.startswith(k + ".") for k in KIND_READERS):
                continue
            for t in frame_terms(fr) + loop_terms(prog, fr):
                for s_ in walk(t):
                    if s_[0] == "attr" and s_[2] == "kind" and any(
                            callee_name(x) == "inspect.signature" or x[0] == "bv" for x in walk(s_[1])):
                        hits.append((name.split("@")[0], s_))
        return hits

    frames = {n: f for n, f in all_frames(prog, include_extra=True).items() if not n.startswith("lcmref")}
    own = [(n, s_) for n, s_ in scan({n: f for n, f in frames.items() if not n.startswith("lcmfix")})]
    ctl = scan({n: f for n, f in frames.items() if n.startswith("lcmfix")})
    if not ctl:
        ctx.undecided("DEFAULTS:positive-control", "the scan no longer flags the fixture's use of Parameter.default")
    ctx.count("positive_controls_flagged", len(ctl))
    seen = set()
    for n, s_ in own:
        if n in seen:
            continue
        seen.add(n)
        ctx.ob(f"DEFAULTS:{n.removeprefix('lcm.')}", False, prog.where(s_),
               f"{n} looks at the default value of a user function's argument ({show(s_)[:60]}): arguments with a default are treated "
               "differently from the others (dropped from the parameter template / not required / bound differently)", lhs=s_)
    kown = scan_kind({n: f for n, f in frames.items() if not n.startswith("lcmfix")})
    kctl = scan_kind({n: f for n, f in frames.items() if n.startswith("lcmfix")})
    if not kctl:
        ctx.undecided("DEFAULTS:positive-control:kind", "the scan no longer flags the fixture's use of Parameter.kind")
    ctx.count("positive_controls_flagged", len(kctl))
    kseen = set()
    for n, s_ in kown:
        if n in kseen:
            continue
        kseen.add(n)
        ctx.ob(f"KIND:{n.removeprefix('lcm.')}", False, prog.where(s_),
               f"{n} looks at the kind of a user function's argument ({show(s_)[:60]}): keyword-only (or positional-only) arguments are "
               "treated differently from the others; only allow_args / allow_only_kwargs, which convert calling conventions, may do so",
               lhs=s_)
    if not kown:
        ctx.ob("DEFAULTS:no-decision-on-kind", True, "", "outside lcm.functools no lcm function reads Parameter.kind")
    if not own:
        ctx.ob("DEFAULTS:no-decision-on-defaults", True, "", "no lcm function reads Parameter.default / Parameter.empty: every argument "
               "of a user function is treated alike")


@rule("R17.WORDER")
def weight_index_order(ctx: Ctx):
    """The transition array of a stochastic variable is indexed with the labels of its dependencies in the order of the
    next function's SIGNATURE -- the order in which create_params_template lays out the axes of that array."""
    from lcmsa.alg import norm

    prog = ctx.prog
    q = "lcm.input_processing.process_model._get_stochastic_weight_function"
    if q not in prog.funcs:
        ctx.undecided("WORDER:index-order", f"{q} not found (anchor vanished)")
        return
    fr = prog.frame(q)
    where = prog.node_where(fr.module, prog.funcs[q].node)
    raw = ("param", q, fr.params[0]) if fr.params else None
    cids = sorted(c for cs in fr.closures.values() for c in cs)
    calls = []
    for cid in cids:
        cf = prog.closure_frame(cid)
        for t in [cf.ret] + [e for _c, e, _n in cf.effects]:
            calls += [s_ for s_ in walk(t) if s_[0] == "call" and callee_name(s_) in ("lcm.functools.all_as_args", "lcm.functools.all_as_kwargs")]
    names = [kw(c, "arg_names") for c in calls if kw(c, "arg_names") is not None]
    if raw is None or not names:
        ctx.undecided("WORDER:index-order", "the weight function does not bind its arguments through all_as_args(arg_names=...)", where)
        return
    sig = ("attr", ("call", ("glob", "inspect.signature"), (raw,), ()), "parameters")
    want = norm(("list", (("star", ("call", ("glob", "builtins.list"), (sig,), ())), ("const", "params"))))
    got = norm(names[0])
    if got == want:
        ctx.ob("WORDER:index-order", True, where,
               "the weight array is indexed by the dependencies in the order of the next function's signature (the layout of the template)",
               lhs=names[0])
    else:
        from_sig = any(x == sig or callee_name(x) == "inspect.signature" for x in walk(names[0]))
        ends_params = is_term(got) and got[0] == "cat" and got[1] and got[1][-1] == ("list", (("const", "params"),))
        verdict = False if (from_sig and ends_params) else None
        ctx.ob("WORDER:index-order", verdict, where,
               "the order in which the dependency labels index the transition array is derived from the signature but is not the signature "
               "order (re-sorted / _period moved): it disagrees with the axis layout of the params template" if verdict is False else
               "order of the index arguments not recognised", lhs=names[0], rhs="[*signature(raw_func).parameters, 'params']")
    # the template side
    tq = "lcm.input_processing.create_params_template._create_stochastic_transition_params"
    if tq in prog.funcs:
        tf = prog.frame(tq)
        dims = [s_ for t in frame_terms(tf) + loop_terms(prog, tf) for s_ in walk(t)
                if s_[0] == "comp" and any(callee_name(x) == "inspect.signature" for x in walk(s_[3][0][1]))]
        ok = any(callee_name(d[3][0][1]) in ("builtins.list", None) and not any(callee_name(x) in ("builtins.sorted", "builtins.reversed", "builtins.set")
                                                                                 for x in walk(d[3][0][1])) for d in dims)
        resorted = bool(dims) and all(any(callee_name(x) in ("builtins.sorted", "builtins.reversed", "builtins.set")
                                          for x in walk(d[3][0][1])) for d in dims)
        ctx.ob("WORDER:template-order", True if ok else False if resorted else None, prog.node_where(tf.module, prog.funcs[tq].node),
               "the template lays out the axes in signature order" if ok else
               "the axes of the transition template are laid out in a re-sorted order of the next function's arguments, while the "
               "weight function indexes the array in signature order" if resorted else "axis order of the template not recognised",
               lhs=show(dims[0][3][0][1])[:160] if dims else "")


@rule("R0.UNDEF")
def defined_before_use(ctx: Ctx):
    """No value that is *definitely* unassigned is used: returns, call arguments, loop updates and
    raise conditions contain no 'undef' outside the not-taken branch of a join."""
    prog = ctx.prog
    bad = []
    n = 0

    def scan(t, depth=0):
        """Yield undefined uses; an undef that is one arm of a phi is a conditional definition."""
        if not isinstance(t, tuple) or depth > 80:
            return
        if t == ("undef",):
            yield t
            return
        if is_term(t) and t[0] == "unknown" and len(t) == 2 and isinstance(t[1], str) and t[1].startswith("name "):
            yield t
            return
        if is_term(t) and t[0] in ("phi", "ifexp"):
            yield from scan(t[1], depth + 1)
            for arm in (t[2], t[3]):
                if arm != ("undef",):
                    yield from scan(arm, depth + 1)
            return
        for x in t:
            if isinstance(x, tuple):
                yield from scan(x, depth + 1)

    for name, fr in all_frames(prog).items():
        if name.startswith(("lcmref", "lcmfix")):
            continue
        q = name.split("@")[0]
        terms = [fr.ret] if fr.ret is not None else []
        terms += [t for _c, t, _n in fr.effects] + [t for _c, t, _n in fr.raises]
        terms += [c for cs, _t, _n in fr.raises for c in cs]
        for lid, lp in prog.loops.items():
            if lp.func == fr.qualname and "@" not in lid:
                terms += [v for v in lp.next.values()] + [lp.iter]
        for lid, lp in prog.loops.items():
            if lp.func == fr.qualname and "@" not in lid:
                for nme, init in lp.init.items():
                    nxt = lp.next.get(nme)
                    if init == ("undef",) and nxt is not None and any(x == ("carried", lid, nme) for x in walk(nxt)):
                        # read (or mutated in place) in the loop before any assignment
                        if nxt[0] in ("mut", "setitem", "setattr") or nxt[0] == "binop":
                            bad.append((q, nxt))
        n += len(terms)
        for t in terms:
            if any(True for _ in scan(t)):
                bad.append((q, t))
                break
    ctx.count("frames_scanned", len(all_frames(prog)))
    seen = set()
    for q, t in bad:
        if q in seen:
            continue
        seen.add(q)
        ctx.ob(f"UNDEF:{q.removeprefix('lcm.')}", False, prog.where(t),
               f"{q} uses a local variable that is never assigned on the path (NameError / UnboundLocalError at run time)",
               lhs=show(t)[:200])
    if not bad:
        ctx.ob("UNDEF:all-uses-defined", True, "", f"every value used in the {n} results, effects, loop updates and guards of lcm is assigned first")
    ctx.floor("frames_scanned", 100)


@rule("R10.BYNAME")
def rebinding_by_name(ctx: Ctx):
    """Every function that lcm gives an explicit signature (`with_signature(args=L)`) while it accepts `*args, **kwargs`
    turns what it was called with into a by-name / by-position view with `all_as_kwargs` / `all_as_args` for the SAME
    list L, and touches the raw `args` / `kwargs` nowhere else.  Otherwise the meaning of a value depends on how the
    caller happened to pass it (positionally, by keyword, in which order)."""
    import ast as _ast

    from lcmsa.match import all_frames, frame_terms, loop_terms

    prog = ctx.prog
    sites = {}
    for _name, fr in sorted(all_frames(prog).items()):
        for t in frame_terms(fr) + loop_terms(prog, fr):
            for s_ in walk(t):
                if s_[0] == "call" and is_term(s_[1]) and s_[1][0] == "call" and callee_name(s_[1]) == "dags.signature.with_signature" \
                        and len(s_[2]) == 1 and kw(s_[1], "args") is not None:
                    tgt = prog.resolve_callable(s_[2][0])
                    if tgt is not None and tgt[0] == "closure":
                        sites.setdefault(tgt[2], (tgt, kw(s_[1], "args")))
    for cid, (tgt, L) in sorted(sites.items()):
        info = prog.closures[cid][0]
        node = info.node
        if not isinstance(node, _ast.FunctionDef) or node.args.vararg is None or node.args.kwarg is None:
            continue  # explicit parameters: Python binds by name already
        ctx.count("signature_sites")
        va, kwa = node.args.vararg.arg, node.args.kwarg.arg
        cf = prog.closure_frame(cid, bind={})  # the body as written: all_as_args / all_as_kwargs not seen through
        q = cf.qualname
        pa, pk = ("param", q, va), ("param", q, kwa)
        where = prog.node_where(cf.module, node)
        key = f"BYNAME:{q.removeprefix('lcm.').replace('.<locals>', '')}"
        terms = [t for t in ([cf.ret] if cf.ret is not None else []) + [e for _c, e, _n in cf.effects] + [e for _c, e, _n in cf.raises]
                 + [c for cs, _e, _n in cf.raises for c in cs] + loop_terms(prog, cf)]
        rebinds = [c for t in terms for c in walk(t) if c[0] == "call" and callee_name(c) in ("lcm.functools.all_as_args", "lcm.functools.all_as_kwargs")
                   and (kw(c, "args") if kw(c, "args") is not None else (c[2][0] if c[2] else None)) == pa
                   and (kw(c, "kwargs") if kw(c, "kwargs") is not None else (c[2][1] if len(c[2]) > 1 else None)) == pk]
        if not rebinds:
            raw_used = any(x in (pa, pk) for t in terms for x in walk(t))
            parts = {L} | ({x for x in L[1]} if L[0] in ("list", "tuple") else set())
            mentions_names = any(x in parts for t in terms for x in walk(t) if is_term(x) and x[0] not in ("const",))
            if mentions_names:
                raw_used = False  # a hand-written rebinding with the signature's names: outside this rule's vocabulary
            ctx.ob(key, False if raw_used else None, where,
                   f"{q} has the signature {show(L)[:60]} but uses what it was called with ({va} / {kwa}) directly, without "
                   "all_as_args / all_as_kwargs(arg_names=<that list>): values are taken in call order, not by name" if raw_used
                   else "by-name rebinding not recognised", lhs=show(L)[:120])
            continue
        def unconv(t):
            while t is not None and callee_name(t) in ("builtins.list", "builtins.tuple") and len(t[2]) == 1:
                t = t[2][0]
            return t

        names = {unconv(kw(c, "arg_names") if kw(c, "arg_names") is not None else (c[2][2] if len(c[2]) > 2 else None)) for c in rebinds}
        same = names == {unconv(L)}
        # any other use of the raw parameters
        allowed = set()
        for c in rebinds:
            allowed.add(c)
        stray = False
        def visit(t, inside):
            nonlocal stray
            if not isinstance(t, tuple):
                return
            if is_term(t) and t in allowed:
                return
            if is_term(t) and t in (pa, pk):
                stray = True
                return
            for x in t:
                if isinstance(x, tuple):
                    visit(x, inside)
        for t in terms:
            visit(t, False)
        ok = (True if not stray else None) if same else False
        ctx.ob(key, ok, where,
               f"{q.split('.')[-1]} rebinds its arguments by name with the list of its signature and uses nothing else of the raw call" if ok else
               (f"the names used for rebinding ({show(next(iter(names)))[:60] if names else '?'}) are not the list of the signature ({show(L)[:60]})"
                if not same else f"{va} / {kwa} are also used directly, besides the by-name view: those values are taken in call order"),
               lhs=show(L)[:120], rhs=show(next(iter(names)))[:120] if names else "")
    ctx.floor("signature_sites", 6)  # 11 on the reviewed tree; refactorings legitimately turn some into plain functions


DISPATCHERS = ("lcm.dispatchers.productmap", "lcm.dispatchers.vmap_1d", "lcm.dispatchers.spacemap", "lcm.dispatchers._base_productmap",
               "jax.vmap")


@rule("R10.SCALAR")
def user_dags_called_through_dispatchers(ctx: Ctx):
    """Model functions are written for scalars.  A function that lcm assembles from them with dags
    (`concatenate_functions`) is therefore never called directly by the function that assembled it: it is handed to a
    dispatcher (productmap / vmap_1d / spacemap), which evaluates it point by point, or returned / passed on.  Expected
    count of direct calls: zero (positive control in the fixture).  A direct call with grids or a mesh of grids as
    arguments is refuted: a filter or utility that reduces over its inputs, branches on them or indexes with them gives
    one answer for the whole grid."""
    from lcmsa.match import all_frames, frame_terms, loop_terms
    from lcmsa.rules_eff import ensure_fixture

    prog = ctx.prog
    ensure_fixture(prog)

    def direct_calls(frames):
        out = []
        for name, fr in sorted(frames.items()):
            seen = set()
            for t in frame_terms(fr) + loop_terms(prog, fr):
                for s_ in walk(t):
                    if s_[0] != "call" or s_ in seen or not is_term(s_[1]):
                        continue
                    seen.add(s_)
                    arms = [s_[1]]
                    while any(is_term(a) and a[0] in ("phi", "ifexp") for a in arms):
                        arms = [b for a in arms for b in ((a[2], a[3]) if is_term(a) and a[0] in ("phi", "ifexp") else (a,))]
                    for a in arms:
                        f = prog.strip_wrappers(a) if is_term(a) else None
                        if is_term(f) and f[0] == "call" and callee_name(f) == "dags.concatenate_functions":
                            out.append((name.split("@")[0], s_, f))
                            break
        return out

    frames = {n: f for n, f in all_frames(prog, include_extra=True).items() if not n.startswith("lcmref")}
    own = direct_calls({n: f for n, f in frames.items() if not n.startswith("lcmfix")})
    ctl = direct_calls({n: f for n, f in frames.items() if n.startswith("lcmfix")})
    if not ctl:
        ctx.undecided("SCALAR:positive-control", "the scan no longer flags the fixture's direct call of a concatenated function")
    ctx.count("positive_controls_flagged", len(ctl))
    n_wrapped = sum(1 for fr in frames.values() for t in frame_terms(fr) for s_ in walk(t)
                    if s_[0] == "call" and callee_name(s_) in DISPATCHERS and any(callee_name(x) == "dags.concatenate_functions" for x in walk(s_)))
    ctx.count("dispatched_dags", n_wrapped)
    done = set()
    for q, call, _f in own:
        if q in done:
            continue
        done.add(q)
        arrayish = any(callee_name(x) in ("jax.numpy.meshgrid", "numpy.meshgrid") or (x[0] == "attr" and x[2] == "grids")
                       or (x[0] == "call" and is_term(x[1]) and x[1][0] == "attr" and x[1][2] == "to_jax")
                       for a in list(call[2]) + [v for _k, v in call[3]] for x in walk(a))
        ctx.ob(f"SCALAR:{q.removeprefix('lcm.')}", False if arrayish else None, prog.where(call),
               f"{q} calls the function it assembled from the model functions directly on grids / a mesh of grids instead of handing it "
               "to productmap / vmap_1d / spacemap: model functions are written for scalars" if arrayish else
               f"{q} calls a concatenated model function directly; its arguments are not recognised as grids", lhs=show(call)[:200])
    if not own:
        ctx.ob("SCALAR:no-direct-call-of-a-model-dag", True, "",
               f"no function calls a dags-assembled model function directly; {n_wrapped} are handed to a dispatcher")
    ctx.floor("dispatched_dags", 3)
