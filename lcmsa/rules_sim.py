"""R15 FLOW, R6 KEY, R5 LAY1-2, R4 AX5: def-use obligations of the simulator."""

from __future__ import annotations

from lcmsa.core import AnalysisError, callee_name, is_term, kw, show, walk
from lcmsa.formula import parse
from lcmsa.match import (
    all_frames,
    calls_in,
    deep_selections,
    deep_walk,
    effective_formula,
    exists_formula,
    frame_terms,
    loop_terms,
    need,
    selections,
)
from lcmsa.report import Ctx, rule
from lcmsa.rules_per import _append_elem, affine

SIM = "lcm.simulate.simulate"
DSC = "lcm.simulate.create_data_scs"
VALUE_CHANGING = {
    "astype", "round", "clip", "floor", "ceil", "trunc", "int", "float", "abs", "sort", "flip", "roll",
    "around", "rint", "int32", "int64", "float32", "asarray_chkfinite", "nan_to_num", "where", "maximum", "minimum",
}


CASTING = {"asarray", "array", "asanyarray", "full_like", "zeros_like", "ones_like", "empty_like"}


def _value_ops(v_elt, plain, ns):
    """Operations applied to the transition result `plain` inside the element term `v_elt`.

    Returns (all operation names on the path, the value-changing ones).  A conversion call
    (`asarray`, `array`) with an explicit dtype is value-changing: it truncates or rounds."""
    ops, bad = set(), set()

    def contains(t):
        return any(s == plain for s in walk(t))

    for s in walk(v_elt):
        if s[0] != "call" or s == ns or not contains(s):
            continue
        name = (callee_name(s) or (s[1][2] if s[1][0] == "attr" else "")).split(".")[-1]
        if not name:
            continue
        ops.add(name)
        if name in VALUE_CHANGING:
            bad.add(name)
        elif name in CASTING and (kw(s, "dtype") is not None or len(s[2]) > 1):
            bad.add(f"{name}(dtype=...)")
    return ops, bad


def tri(actual, expected):
    """Three-valued 'is this value the expected one?': equal -> True; missing / an unrelated value -> False;
    the expected value wrapped in something (a copy, a conversion) -> None unless the wrapper changes values."""
    if actual is None:
        return False
    if actual == expected:
        return True
    if any(s == expected for s in walk(actual)):
        _ops, bad = _value_ops(actual, expected, None)
        return False if bad else None
    return False


def sim_loop(prog):
    fr = prog.frame(SIM)
    loops = [lp for lid, lp in prog.loops.items() if lp.func == SIM and "@" not in lid]
    need(len(loops) == 1, f"simulate: expected one period loop, found {len(loops)}")
    return fr, loops[0]


def P(name):
    return ("param", SIM, name)


@rule("R15.FLOW")
def sim_flow(ctx: Ctx):
    prog = ctx.prog
    fr, lp = sim_loop(prog)
    lid = lp.id
    nxt, init = lp.next, lp.init
    lv = lp.target
    # ---- results of one iteration
    acc = [n for n, v in nxt.items() if v[0] == "mut" and v[2] == "append"]
    need(acc, "simulate: no result list is appended to in the loop")
    res_name = acc[0]
    res = _append_elem(nxt[res_name], ("carried", lid, res_name))
    need(res[0] == "dict", "simulate: per-period result is not a dict display")
    rd = {k[1]: v for k, v in res[1] if k is not None and k[0] == "const"}
    need({"value", "choices", "states"} <= set(rd), f"result dict keys are {sorted(rd)}")
    # which loop-carried variable holds the states?
    st_name = None
    for n in nxt:
        if init.get(n) == P("initial_states"):
            st_name = n
    ctx.ob("FLOW:initial-states", st_name is not None, prog.where(res),
           "period 0 starts from the supplied initial_states" if st_name else
           "no loop-carried variable is initialised with initial_states", lhs=str({k: show(v)[:40] for k, v in init.items()})[:300])
    need(st_name is not None, "state variable not found")
    cur = ("carried", lid, st_name)
    ctx.ob("FLOW:states-stored", tri(rd["states"], cur), prog.where(res),
           "the states stored for period t are the states the period-t decisions are computed from"
           if rd["states"] == cur else "the stored states are not the states at the start of the iteration",
           lhs=rd["states"], rhs=cur)
    ds = calls_in(tuple(nxt.values()), DSC)
    need(ds, "simulate: create_data_scs not called in the loop")
    ctx.ob("FLOW:data-space-states", tri(kw(ds[0], "states"), cur), prog.where(ds[0]),
           "the data state-choice space is built from the current states" if kw(ds[0], "states") == cur else
           "create_data_scs does not receive the current states", lhs=kw(ds[0], "states") or "missing", rhs=cur)
    # ---- next_state call
    ns = [s for v in nxt.values() for s in walk(v) if s[0] == "call" and s[1] == P("next_state")]
    need(ns, "simulate: next_state(...) is not called in the loop")
    ns = ns[0]
    splats = [v for k, v in ns[3] if k is None]
    ctx.ob("FLOW:next-state-gets-current-states", True if cur in splats else max((tri(x, cur) for x in splats), key=lambda v: (v is True, v is None), default=False), prog.where(ns),
           "the transition functions receive the period-t states" if cur in splats else
           "next_state does not receive the states of this period", lhs=show(ns)[:200])
    ctx.ob("FLOW:next-state-gets-reported-choices", True if rd["choices"] in splats else max((tri(x, rd["choices"]) for x in splats), key=lambda v: (v is True, v is None), default=False), prog.where(ns),
           "the transition functions receive exactly the choices that are reported" if rd["choices"] in splats
           else "next_state receives other choices than the reported ones", lhs=show(ns)[:200], rhs=show(rd["choices"])[:200])
    ctx.ob("FLOW:next-state-params", tri(kw(ns, "params"), P("params")), prog.where(ns),
           "the transition functions receive the params of this call" if kw(ns, "params") == P("params") else
           "next_state does not receive the caller's params", lhs=kw(ns, "params") or "missing")
    pk = kw(ns, "_period")
    okp = False
    if pk is not None and callee_name(pk) in ("jax.numpy.repeat", "jax.numpy.full", "jax.numpy.tile"):
        a0 = pk[2][0] if pk[2] else None
        a1 = pk[2][1] if len(pk[2]) > 1 else kw(pk, "repeats")
        if callee_name(pk) == "jax.numpy.full":
            a0, a1 = (pk[2][1] if len(pk[2]) > 1 else kw(pk, "fill_value")), pk[2][0]
        okp = a0 is not None and affine(a0, lv) == (1, 0) and a1 is not None and _is_len_of_states(a1)
    if not okp:
        # REFUTED only if a period expression is recognised and it is not the loop's period (t+1, a constant, missing)
        cand = pk[2][0] if (pk is not None and pk[0] == "call" and pk[2]) else pk
        af = affine(cand, lv) if cand is not None else None
        if pk is None or (af is not None and af != (1, 0)) or (cand is not None and cand[0] == "const"):
            okp = False
        elif pk is not None and callee_name(pk) in ("jax.numpy.repeat", "jax.numpy.full", "jax.numpy.tile") and af == (1, 0):
            okp = None  # the right period, an unrecognised number of entries
        else:
            okp = None
    ctx.ob("FLOW:next-state-period", okp, prog.where(ns),
           "_period passed to the transition functions is the current period, one entry per agent" if okp else
           f"_period passed to next_state is {show(pk)[:80] if pk else 'missing'} (required: the loop's period, per agent)",
           lhs=pk if pk is not None else "missing", rhs="repeat(period, n_agents)")
    # ---- state update: strip the prefix, nothing else
    from lcmsa.rules_kernel import fuse_comps

    upd = fuse_comps(nxt[st_name])  # a second comprehension over the items of the first is one comprehension
    ok_shape = (
        upd[0] == "comp" and upd[1] == "dict" and len(upd[3]) == 1
        and upd[3][0][1] == ("call", ("attr", ns, "items"), (), ()) and not upd[3][0][2]
    )
    if ok_shape:
        k_elt, v_elt = upd[2]
        tg = upd[3][0][0]
        kb, vb = tg[1]
        ok_key = k_elt == ("call", ("attr", kb, "removeprefix"), (("const", "next_"),), ())
        ctx.ob("FLOW:state-update:prefix", ok_key, prog.where(upd),
               "new state names are the next_<state> names with exactly the prefix 'next_' removed" if ok_key else
               f"state names are derived as {show(k_elt)[:80]}", lhs=k_elt, rhs="k.removeprefix('next_')")
        if v_elt == vb:
            ctx.ob("FLOW:state-update:values", True, prog.where(upd),
                   "next-period states are the transition results, unchanged", lhs=v_elt)
        else:
            ops, bad = _value_ops(v_elt, vb, ns)
            ctx.ob("FLOW:state-update:values", False if bad else None, prog.where(upd),
                   f"next-period states are transformed by {sorted(bad)} after the transition functions"
                   if bad else f"next-period states are post-processed by {sorted(ops)} (not recognised)",
                   lhs=v_elt, rhs="v")
    elif (upd[0] == "comp" and upd[1] == "dict" and len(upd[3]) == 1 and not upd[3][0][2]
          and upd[3][0][1] == ("call", ("attr", cur, "items"), (), ())):
        # {name: next_states["next_" + name] ... for name, state in states.items()}
        k_elt, v_elt = upd[2]
        kb = upd[3][0][0][1][0]
        plain = ("sub", ns, ("fstr", (("const", "next_"), kb)))
        ok_key = k_elt == kb
        ctx.ob("FLOW:state-update:prefix", ok_key, prog.where(upd),
               "new states are looked up as next_<state> for every current state" if ok_key else
               f"state names are derived as {show(k_elt)[:80]}", lhs=k_elt)
        if v_elt == plain:
            ctx.ob("FLOW:state-update:values", True, prog.where(upd),
                   "next-period states are the transition results, unchanged", lhs=v_elt)
        else:
            ops, bad = _value_ops(v_elt, plain, ns)
            ctx.ob("FLOW:state-update:values", False if bad else None, prog.where(upd),
                   f"next-period states are transformed by {sorted(bad)} after the transition functions"
                   if bad else f"next-period states are post-processed by {sorted(ops)} (not recognised)",
                   lhs=v_elt, rhs=plain)
    else:
        # maybe written as a loop / dict() call: outside vocabulary
        okd = any(s == ns for s in walk(upd))
        ctx.ob("FLOW:state-update:shape", None if okd else False, prog.where(upd),
               "state update not recognised" if okd else "the new states are not computed from next_state(...)", lhs=upd)
    # ---- value / policy wiring
    scp = calls_in(tuple(nxt.values()), "lcm.simulate.solve_continuous_problem")
    need(scp, "simulate: solve_continuous_problem not called")
    scp = scp[0]
    val = rd["value"]
    dpc = val[1] if val[0] == "sub" and val[1][0] == "call" else None
    ccv_term = ("sub", scp, ("const", 1))
    ok_v = None
    inner = next((x for x in walk(val) if x[0] == "sub" and x[2] == ("const", 2) and x[1][0] == "call"
                  and ccv_term in list(x[1][2]) + [v for _k, v in x[1][3]]), None)
    if inner is not None and inner != val:
        _ops, bad = _value_ops(val, inner, None)
        ok_v = False if bad else None
    elif dpc is not None and val[2] == ("const", 2):
        args = list(dpc[2]) + [v for _k, v in dpc[3]]
        ok_v = True if ccv_term in args else None if any(x == ccv_term or x == scp for a in args for x in walk(a)) else False
    elif not any(x == scp for x in walk(val)):
        ok_v = False  # the value does not come from this period's conditional continuation values at all
    ctx.ob("FLOW:value-from-maxima", ok_v, prog.where(val),
           "the reported value is the discrete maximum of the conditional maxima (second result of the policy function)"
           if ok_v else "the reported value is not reduced from the conditional maxima", lhs=val)
    fcp_term = prog.module_frame("lcm.simulate").env.get("filter_ccv_policy")
    fcp = [s for v in nxt.values() for s in walk(v) if s[0] == "call" and s[1] == fcp_term]
    if fcp:
        ok_f = kw(fcp[0], "ccv_policy") == ("sub", scp, ("const", 0))
        ctx.ob("FLOW:policy-from-argmaxes", ok_f, prog.where(fcp[0]),
               "the continuous policy is selected from the conditional arg-maxes (first result)" if ok_f else
               "filter_ccv_policy does not receive the conditional arg-max array", lhs=kw(fcp[0], "ccv_policy") or "missing")
        if dpc is not None:
            ok_d = kw(fcp[0], "dense_argmax") == ("sub", dpc, ("const", 0))
            ctx.ob("FLOW:policy-uses-dense-argmax", ok_d, prog.where(fcp[0]),
                   "the continuous policy is that of the optimal dense choice" if ok_d else
                   "filter_ccv_policy is not indexed by the dense arg-max", lhs=kw(fcp[0], "dense_argmax") or "missing")
    ctx.ob("FLOW:continuous-problem-params", tri(kw(scp, "params"), P("params")), prog.where(scp),
           "the continuation values are computed with the params of this call", lhs=kw(scp, "params") or "missing")
    # ---- order sources of index <-> grid pairs (AX6)
    rn = []
    for v in nxt.values():
        for s in walk(v):
            if callee_name(s) == "lcm.simulate.retrieve_non_sparse_choices" and s not in rn:
                rn.append(s)
    for c in rn:
        grids, shape = kw(c, "grids"), kw(c, "grid_shape")
        ok = (
            shape is not None and grids is not None and callee_name(shape) == "builtins.tuple" and shape[2]
            and shape[2][0][0] == "comp" and shape[2][0][3][0][1] == ("call", ("attr", grids, "values"), (), ())
            and callee_name(shape[2][0][2]) == "builtins.len" and shape[2][0][2][2] == (shape[2][0][3][0][0],)
        )
        tag = "dense" if "dense_vars" in show(grids) else "continuous"
        ctx.ob(f"AX6:unravel-shape:{tag}", ok, prog.where(c),
               "the flat index is unravelled over the lengths of exactly the grids it is then looked up in, same order"
               if ok else "grid_shape is not derived from the grids dict the indices are looked up in",
               lhs=shape if shape is not None else "missing", rhs=grids if grids is not None else "missing")
        ctx.count("unravel_sites")
    if fcp:
        dshape = kw(fcp[0], "dense_vars_grid_shape")
        ds_ok = any(kw(c, "grid_shape") == dshape for c in rn)
        ctx.ob("AX6:filter-policy-shape", ds_ok, prog.where(fcp[0]),
               "filter_ccv_policy unravels the dense arg-max over the dense grid shape used for the dense choices"
               if ds_ok else "filter_ccv_policy uses a different shape than the dense choice retrieval", lhs=dshape or "missing")
    ctx.floor("unravel_sites", 2)
    # ---- additional targets and output
    ct = calls_in(tuple(fr.env.values()), "lcm.simulate._compute_targets")
    if ct:
        c = ct[0]
        proc = c[2][0] if c[2] else kw(c, "processed_results")
        ok = (kw(c, "params") == P("params") and kw(c, "targets") == P("additional_targets")
              and kw(c, "model_functions") == ("attr", P("model"), "functions")
              and callee_name(proc) == "lcm.simulate._process_simulated_data")
        ctx.ob("FLOW:targets-arguments", ok, prog.where(c),
               "additional targets are computed from the processed panel, the model functions and the params of this call"
               if ok else "additional targets are not computed from (panel, model.functions, params of the call)",
               lhs=show(c)[:250])
        # the computed targets enter the panel under their own names and unchanged
        panel = kw(fr.ret, "processed") or (fr.ret[2][0] if fr.ret[0] == "call" and fr.ret[2] else None)
        from lcmsa.alg import norm as _norm

        n_panel = _norm(panel) if panel is not None else None
        parts = []
        for x in walk(n_panel) if n_panel is not None else []:
            if x[0] == "bar":
                parts += list(x[1])
        merged = _norm(c) in parts
        transformed = [p_ for p_ in parts if p_ != _norm(c) and any(y == _norm(c) for y in walk(p_))]
        verdict = True if merged else False if transformed and any(
            p_[0] == "comp" and p_[1] == "dict" and (p_[2][0] != (p_[3][0][0][1][0] if p_[3][0][0][0] == "tuple" else None)
                                                   or p_[2][1] != (p_[3][0][0][1][1] if p_[3][0][0][0] == "tuple" else None))
            for p_ in transformed) else None
        ctx.ob("FLOW:targets-merged-unchanged", verdict, prog.where(c),
               "the computed targets are merged into the panel under their own names" if verdict else
               "the computed targets are renamed or transformed before they are merged into the panel: a target can overwrite "
               "another column" if verdict is False else "merging of the computed targets into the panel not recognised",
               lhs=show(panel)[:200] if panel is not None else "missing")
        # inside _compute_targets: values that come back as a sequence are labelled with the targets in the order requested
        cq = "lcm.simulate._compute_targets"
        cfr = prog.frame(cq) if cq in prog.funcs else None
        if cfr is not None and cfr.ret is not None:
            cf_calls = [x for x in walk(cfr.ret) if callee_name(x) == "dags.concatenate_functions"]
            rt = kw(cf_calls[0], "return_type") if cf_calls else None
            req = kw(cf_calls[0], "targets") if cf_calls else None
            ret = cfr.ret
            if cf_calls and rt is not None and rt[0] == "const" and rt[1] in ("tuple", "list") and req is not None:
                labels = None
                if callee_name(ret) == "builtins.dict" and ret[2] and callee_name(ret[2][0]) == "builtins.zip" and len(ret[2][0][2]) == 2:
                    labels, vals = ret[2][0][2]
                    if not any(x == cf_calls[0] for x in walk(vals)):
                        labels = None
                def strip(t):
                    while callee_name(t) in ("builtins.list", "builtins.tuple") and len(t[2]) == 1:
                        t = t[2][0]
                    return t
                if labels is not None:
                    same = strip(labels) == strip(req)
                    reordered = callee_name(strip(labels)) in ("builtins.sorted", "builtins.reversed", "builtins.set") or (
                        strip(labels)[0] == "sub" and strip(labels)[2][0] == "slice")
                    ctx.ob("FLOW:targets-labelled-in-request-order", True if same else False if reordered else None, prog.where(ret),
                           "the values returned as a sequence are labelled with the targets in the order in which they were requested"
                           if same else "the values come back in the order of targets=, but are labelled with a differently ordered "
                           "sequence of names: columns are permuted" if reordered else "labelling of the target values not recognised",
                           lhs=show(labels)[:120], rhs=show(req)[:120])
    else:
        ctx.undecided("FLOW:targets-arguments", "_compute_targets call not found")
    r = fr.ret
    ok = callee_name(r) == "lcm.simulate._as_data_frame" and lp.iter[2] and kw(r, "n_periods") == lp.iter[2][0]
    ctx.ob("FLOW:frame", ok, prog.where(r), "the processed panel is converted with the loop's number of periods"
           if ok else "result is not _as_data_frame(processed, n_periods=n_periods)", lhs=show(r)[:200])
    proc = [s for s in walk(r) if callee_name(s) == "lcm.simulate._process_simulated_data"]
    ok = bool(proc) and (proc[0][2][0] if proc[0][2] else kw(proc[0], "results")) == ("loopout", lid, res_name)
    ctx.ob("FLOW:panel-from-results", ok, prog.where(r), "the panel is built from all per-period results" if ok else
           "the panel is not built from the per-period result list", lhs=show(proc[0])[:120] if proc else "missing")


def _is_len_of_states(t):
    """len(<first array of initial_states>)"""
    return callee_name(t) == "builtins.len" and any(x == ("param", SIM, "initial_states") or (x[0] == "carried" and x[1].startswith(SIM)) for x in walk(t))


# ======================================================================================
# R6 KEY
# ======================================================================================

KEY_CTORS = ("jax.random.PRNGKey", "jax.random.key")
ENTROPY_MODULES = ("random", "secrets", "uuid", "time", "numpy.random", "os.urandom", "datetime")


def _key_split_rule(ctx, prog):
    """KEY4: one split per period; the carried key and the keys of the variables are DIFFERENT parts of it."""
    from lcmsa.alg import deindex

    q = "lcm.simulate._generate_simulation_keys"
    if q not in prog.funcs:
        ctx.undecided("KEY4:distinct-keys", f"{q} not found (anchor vanished)")
        return
    g = prog.frame(q)
    ret = deindex(g.ret) if g.ret is not None else None
    splits = list(dict.fromkeys(s for s in walk(ret) if s[0] == "call" and callee_name(s) == "jax.random.split")) if ret else []
    if ret is None or ret[0] != "tuple" or len(ret[1]) != 2 or len(splits) != 1:
        ctx.undecided("KEY4:distinct-keys", f"key generation not recognised ({len(splits)} split calls)", prog.where(ret) if ret else "")
        return
    S = splits[0]
    k0, d = ret[1]
    from lcmsa.alg import identity_comp

    d = identity_comp(d)
    where = prog.where(S)
    c0 = k0[2][1] if k0[0] == "sub" and k0[1] == S and k0[2][0] == "const" and isinstance(k0[2][1], int) else None
    if c0 is None and not any(x == S for x in walk(k0)):
        ctx.ob("KEY4:distinct-keys", False, where, f"the key carried to the next period ({show(k0)[:60]}) is not a part of this period's split: "
               "the same key is split again in every period", lhs=k0, rhs="split[0]")
        return
    if c0 is None:
        ctx.undecided("KEY4:distinct-keys", f"the carried key is {show(k0)[:80]} (expected one element of the split)", where)
        return
    verdict, why = None, "mapping of names to keys not recognised"
    # dict(zip(ids, S[lo:]))
    if callee_name(d) == "builtins.dict" and len(d[2]) == 1 and callee_name(d[2][0]) == "builtins.zip" and len(d[2][0][2]) == 2:
        vals = d[2][0][2][1]
        if vals[0] == "sub" and vals[1] == S and vals[2][0] == "slice":
            lo = vals[2][1]
            lo = 0 if lo is None or lo == ("const", None) else (lo[1] if lo[0] == "const" and isinstance(lo[1], int) else None)
            hi = vals[2][2]
            hi = None if hi is None or hi == ("const", None) else (hi[1] if hi[0] == "const" and isinstance(hi[1], int) else "?")
            if vals[2][2] is not None and vals[2][2][0] == "unop" and vals[2][2][1] == "-" and vals[2][2][2][0] == "const":
                hi = -vals[2][2][2][1]
            if lo is not None and hi != "?" and (len(vals[2]) < 4 or vals[2][3] in (None, ("const", None))):
                inside = lo <= c0 and (hi is None or hi < 0 or hi > c0)
                verdict = not inside
                rng = f"split[{lo}:{'' if hi is None else hi}]"
                why = (f"names are paired with {rng}, the carried key is split[{c0}]" if verdict else
                       f"split[{c0}] is carried to the next period AND handed to a variable ({rng})")
        elif vals == S:
            verdict, why = False, f"split[{c0}] is carried to the next period AND handed to the first variable"
    elif d[0] == "comp" and d[1] == "dict" and len(d[3]) == 1:
        tg, it, _conds = d[3][0]
        v = d[2][1]
        if v[0] == "sub" and v[1] == S:
            idx = v[2]
            if idx[0] == "const":
                verdict, why = False, f"every variable receives the same key split[{idx[1]}]: draws of different variables are not independent"
            elif callee_name(it) == "builtins.enumerate" and tg[0] == "tuple":
                pos = tg[1][0]
                start = kw(it, "start") or (it[2][1] if len(it[2]) > 1 else ("const", 0))
                off = None
                if idx == pos:
                    off = 0
                elif idx[0] == "binop" and idx[1] == "+" and idx[2] == pos and idx[3][0] == "const":
                    off = idx[3][1]
                elif idx[0] == "binop" and idx[1] == "+" and idx[3] == pos and idx[2][0] == "const":
                    off = idx[2][1]
                if off is not None and start[0] == "const":
                    lo = off + start[1]
                    verdict = c0 < lo
                    why = (f"variable i receives split[i+{lo}], the carried key is split[{c0}]" if verdict else
                           f"split[{c0}] is carried to the next period AND handed to a variable")
    if verdict is None and callee_name(d) == "builtins.dict.fromkeys" and len(d[2]) == 2:
        verdict, why = False, f"every variable receives the same key ({show(d[2][1])[:40]}): draws of different variables are not independent"
    if verdict is None and not any(x == S for x in walk(d)):
        verdict, why = False, "the per-variable keys are not taken from this period's split"
    ctx.ob("KEY4:distinct-keys", verdict, where, why, lhs=d, rhs="pairwise different parts of one split")
    n = kw(S, "num") or (S[2][1] if len(S[2]) > 1 else None)
    if n is not None:
        from lcmsa.alg import norm

        ok = norm(n) == norm(("binop", "+", ("call", ("glob", "builtins.len"), (("param", q, g.params[1] if len(g.params) > 1 else "ids"),), ()), ("const", 1)))
        ctx.ob("KEY4:split-size", True if ok else None, where,
               "the split yields one key per variable plus the carried key" if ok else f"split size {show(n)[:60]} not recognised", lhs=n)


@rule("R6.KEY")
def key_rules(ctx: Ctx):
    prog = ctx.prog
    fr, lp = sim_loop(prog)
    lid, nxt, init = lp.id, lp.next, lp.init
    # KEY1: single source
    sites = []
    for name, f in all_frames(prog).items():
        if name.startswith("lcmref"):
            continue
        for t in frame_terms(f) + loop_terms(prog, f):
            for s in walk(t):
                if s[0] == "call" and callee_name(s) in KEY_CTORS and (name.split("@")[0], s) not in sites:
                    sites.append((name.split("@")[0], s))
    ok = len(sites) == 1 and sites[0][0] == SIM
    ctx.ob("KEY1:single-source", ok, prog.where(sites[0][1]) if sites else "",
           "exactly one PRNG key is created, in simulate" if ok else f"PRNG keys are created at {[n for n, _ in sites]}",
           lhs=str([n for n, _ in sites]))
    if sites:
        s = sites[0][1]
        a = kw(s, "seed") or (s[2][0] if s[2] else None)
        ctx.ob("KEY1:seeded-by-argument", a == P("seed"), prog.where(s),
               "the key is derived from the seed argument only" if a == P("seed") else
               f"the key is created from {show(a) if a else 'nothing'}", lhs=a or "missing", rhs="seed")
    bad = []
    for m in prog.modules.values():
        if m.name.startswith("lcmref"):
            continue
        for local, target in m.imports.items():
            if target in ENTROPY_MODULES or any(target.startswith(e + ".") for e in ENTROPY_MODULES):
                bad.append(f"{m.name}: {target}")
        for name, f in []:
            pass
    for name, f in all_frames(prog).items():
        if name.startswith("lcmref"):
            continue
        for t in frame_terms(f) + loop_terms(prog, f):
            for s in walk(t):
                if s[0] == "glob" and (s[1].startswith(("numpy.random", "random.", "secrets.", "uuid.", "os.urandom", "time.time"))):
                    bad.append(f"{name}: {s[1]}")
    ctx.ob("KEY1:no-ambient-entropy", not bad, "", "no other entropy source is imported or used in lcm" if not bad else
           f"other entropy sources: {sorted(set(bad))}", lhs=str(sorted(set(bad))))
    # KEY3: loop-carried key is advanced by this iteration's split
    kname = None
    for n, v in init.items():
        if v[0] == "call" and callee_name(v) in KEY_CTORS:
            kname = n
    if kname is None:
        gens = calls_in(tuple(nxt.values()), "lcm.simulate._generate_simulation_keys")
        k0 = kw(gens[0], "key") if gens else None
        if k0 is not None and k0[0] != "carried" and any(callee_name(s) in KEY_CTORS for s in walk(k0)):
            ctx.ob("KEY3:key-advanced-each-period", False, prog.where(gens[0]),
                   "the key given to the per-period split is the same key in every period (it is not loop-carried): "
                   "every period draws with identical keys", lhs=k0)
            return
        raise AnalysisError("simulate: no loop-carried PRNG key")
    g = nxt[kname]
    gen = g[1] if g[0] == "sub" else None
    ok = (gen is not None and g[2] == ("const", 0) and callee_name(gen) == "lcm.simulate._generate_simulation_keys"
          and kw(gen, "key") == ("carried", lid, kname))
    ctx.ob("KEY3:key-advanced-each-period", ok, prog.where(g),
           "each period consumes the carried key once and carries on a fresh sub-key of this period's split" if ok else
           "the loop-carried key is not replaced by the first result of this period's key split "
           "(the same keys would be reused in every period)", lhs=g, rhs="_generate_simulation_keys(key=<carried key>)[0]")
    ns = [s for v in nxt.values() for s in walk(v) if s[0] == "call" and s[1] == P("next_state")]
    if ns and gen is not None:
        k = kw(ns[0], "keys")
        ctx.ob("KEY2:sim-keys-from-same-split", k == ("sub", gen, ("const", 1)), prog.where(ns[0]),
               "the draws of period t use the per-variable keys of period t's split" if k == ("sub", gen, ("const", 1))
               else "next_state does not receive the second result of this period's key split", lhs=k or "missing")
        # consumed exactly once per iteration
        uses = sum(1 for v in {nxt[kname], *[x for x in nxt.values()]} for s in walk(v)
                   if s == ("carried", lid, kname)) if False else None
        consumers = {s for v in nxt.values() for s in walk(v)
                     if s[0] == "call" and any(x == ("carried", lid, kname) for x in s[2] + tuple(v2 for _, v2 in s[3]))}
        ctx.ob("KEY2:carried-key-single-consumer", len(consumers) == 1, prog.where(g),
               "the carried key is consumed by exactly one call per period" if len(consumers) == 1 else
               f"the carried key is consumed by {len(consumers)} different calls in one period", lhs=str([show(c)[:60] for c in consumers]))
    # KEY6: seed cannot influence what is stored for the current period
    acc = [n for n, v in nxt.items() if v[0] == "mut" and v[2] == "append"]
    res = _append_elem(nxt[acc[0]], ("carried", lid, acc[0]))
    tainted = any(s == ("carried", lid, kname) or callee_name(s) == "lcm.simulate._generate_simulation_keys"
                  or callee_name(s) in KEY_CTORS for s in walk(res))
    ctx.ob("KEY6:results-independent-of-current-key", not tainted, prog.where(res),
           "what is stored for period t does not depend on period t's key (so period 0 does not depend on the seed)"
           if not tainted else "the stored results depend on the PRNG key of the same period", lhs=show(res)[:200])
    _key_split_rule(ctx, prog)
    # KEY5: keys are generated for every stochastic next function that is sampled
    ids = kw(gen, "ids") if gen is not None else None
    nfr = prog.frame("lcm.next_state._get_next_state_function_simulation")
    st = None
    for t_ in list(nfr.env.values()) + [nfr.ret]:
        for s_ in walk(t_):
            if s_[0] == "comp" and s_[1] == "dict" and callee_name(s_[2][1]) == "lcm.next_state._get_stochastic_next_func":
                st = s_[3][0][1]
    if ids is not None and st is not None and selections(ids) and selections(st):
        fi, _ = effective_formula(selections(ids)[0], {})
        fs, _ = effective_formula(selections(st)[0], {})
        from lcmsa.formula import Universe

        funi = Universe(["is_constraint", "is_filter", "is_stochastic_next", "starts_with_next"],
                        {"is_next": ("and", ("col", "starts_with_next"),
                                     ("and", ("not", ("col", "is_constraint")), ("not", ("col", "is_filter"))))}, [])
        a, b = funi.select(fi), funi.select(fs)
        ctx.ob("KEY5:one-key-per-sampled-function", b <= a, prog.where(ids),
               "a key is generated for every next function that is replaced by a sampler" if b <= a else
               "some sampled next functions have no key", lhs=show(ids), rhs=show(st))
    else:
        ctx.undecided("KEY5:one-key-per-sampled-function", "key ids / stochastic targets not recognised")


# ======================================================================================
# R5 LAY1-2: the data state-choice space
# ======================================================================================


@rule("R5.LAY")
def data_space_layout(ctx: Ctx):
    prog = ctx.prog
    fr = prog.frame(DSC)
    q = DSC
    states = ("param", q, "states")
    loops = [lp for lid, lp in prog.loops.items() if lp.func == q and "@" not in lid]
    len_first = ("call", ("glob", "builtins.len"), (("call", ("glob", "builtins.next"), (("call", ("glob", "builtins.iter"), (("call", ("attr", states, "values"), (), ()),), ()),), ()),), ())
    n_states = len_first if any(s_ == len_first for t_ in frame_terms(fr) + loop_terms(prog, fr) for s_ in walk(t_)) else None
    ok_n = n_states is not None
    ctx.ob("LAY1:n-agents", ok_n, prog.where(n_states) if n_states else "",
           "the number of agents is the length of a state array" if ok_n else "n_states is not len(first state array)",
           lhs=n_states or "missing")
    # ---- the (agents x sparse-choice combinations) grid, whatever way it is built (loops, comprehensions,
    # dict merges): located as the dict whose entries are masked, then brought to comprehension normal form
    from lcmsa.alg import hoist, norm
    from lcmsa.core import canon_bv as renumber_bv
    from lcmsa.rules_kernel import comprehend, fuse_comps

    space0 = calls_in(tuple(frame_terms(fr)), "lcm.interfaces.Space")
    need(space0, "no Space built")
    sp0 = kw(space0[0], "sparse_vars")
    masked = sp0[2] if sp0 is not None and sp0[0] in ("phi", "ifexp") else sp0
    need(masked is not None and masked[0] == "comp" and masked[1] == "dict", "sparse_vars is not a dict of masked arrays")
    grid_src = masked[3][0][1]
    if grid_src[0] == "call" and grid_src[1][0] == "attr" and grid_src[1][2] == "items":
        grid_src = grid_src[1][1]
    def N(x):
        return hoist(norm(renumber_bv(fuse_comps(comprehend(prog, x)))))

    g = N(grid_src)
    parts = list(g[1]) if g[0] == "bar" else [g]
    comps = [x for x in parts if x[0] == "comp" and x[1] == "dict" and len(x[3]) == 1]
    need(len(comps) == len(parts) and len(comps) == 2,
         f"the combination grid is not the merge of two dict comprehensions/loops ({[x[0] for x in parts]})")
    n_states_n = N(n_states) if n_states is not None else None
    dp = calls_in(tuple(frame_terms(fr) + loop_terms(prog, fr)), "lcm.simulate.dict_product")
    prod_n = N(("sub", dp[0], ("const", 0))) if dp else None
    ncomb_n = N(("sub", dp[0], ("const", 1))) if dp else None
    states_items = N(("call", ("attr", states, "items"), (), ()))
    st_comp = next((c for c in comps if c[3][0][1] == states_items), None)
    ch_comp = next((c for c in comps if c is not st_comp), None)
    need(st_comp is not None, "no part of the combination grid iterates over states.items()")

    def repeat_like(c):
        """(op, array, count) of the value of a {k: op(v, count) for k, v in ...} comprehension."""
        tg = c[3][0][0]
        kb, vb = tg[1] if tg[0] == "tuple" and len(tg[1]) == 2 else (None, None)
        val = c[2][1]
        if c[2][0] != kb or val[0] != "op" or val[1] not in ("repeat", "tile"):
            return None
        d = dict(val[2])
        cnt = d.get("repeats") if val[1] == "repeat" else d.get("reps")
        # the count does not use the comprehension's variables: number its own binders from the top level
        return val[1], d.get("a") == vb, renumber_bv(cnt) if cnt is not None else None

    r = repeat_like(st_comp)
    if r is None:
        ctx.undecided("LAY1:states-repeat", "the state part of the combination grid is not {name: repeat/tile(state, n)}", prog.where(grid_src))
    else:
        op, arr_ok, cnt = r
        ok = op == "repeat" and arr_ok and ncomb_n is not None and cnt == ncomb_n
        definite = op == "tile" or (op == "repeat" and arr_ok and cnt is not None and n_states_n is not None and cnt == n_states_n)
        ctx.ob("LAY1:states-repeat", True if ok else False if definite else None, prog.where(grid_src),
               "each agent's state is repeated once per sparse-choice combination (agent-major rows)" if ok else
               ("states are tiled / repeated by the number of agents: rows are not agent-major blocks of combinations" if definite
                else "the repetition count of the states is not recognised as the number of sparse-choice combinations"),
               lhs=str(st_comp[2][1])[:200], rhs="repeat(state, repeats=n_combinations)")
    if ch_comp is None:
        ctx.undecided("LAY1:choices-tile", "choice part of the combination grid not found")
    else:
        r = repeat_like(ch_comp)
        it = renumber_bv(ch_comp[3][0][1])
        from_product = prod_n is not None and it == N(("call", ("attr", ("sub", dp[0], ("const", 0)), "items"), (), ()))
        # the raw grids of the sparse choices (what dict_product gets, or model.grids) instead of product rows
        raw = dp and it == N(("call", ("attr", (dp[0][2][0] if dp[0][2] else kw(dp[0], "d")), "items"), (), ()))
        # without the dict_product helper: the choice part iterates the selected grids themselves if its source is a
        # selection of grids that went through no product construction (meshgrid / itertools.product / dict_product)
        raw_it = ch_comp[3][0][1]
        src = raw_it[1][1] if (raw_it[0] == "call" and raw_it[1][0] == "attr" and raw_it[1][2] == "items") else raw_it
        src_terms = list(deep_walk(prog, src))
        has_product = any(callee_name(x) in ("lcm.simulate.dict_product", "jax.numpy.meshgrid", "numpy.meshgrid", "itertools.product")
                          or (x[0] == "op" and x[1] in ("meshgrid",)) for x in src_terms if is_term(x))
        no_product = (not dp) and (bool(deep_selections(prog, src)) or any(is_term(x) and x[0] == "qsel" for x in src_terms)) and not has_product
        if r is None:
            ctx.undecided("LAY1:choices-tile", "the choice part of the combination grid is not {name: tile/repeat(x, n)}", prog.where(grid_src))
        else:
            op, arr_ok, cnt = r
            ok = op == "tile" and arr_ok and from_product and n_states_n is not None and cnt == n_states_n
            definite = op == "repeat" or raw or no_product
            ctx.ob("LAY1:choices-tile", True if ok else False if definite else None, prog.where(grid_src),
                   "the rows of the sparse-choice product are tiled once per agent" if ok else
                   ("each sparse choice grid is cycled on its own / repeated: the rows do not enumerate the Cartesian product "
                    "of the sparse choices for every agent" if definite else "tiling of the sparse choices not recognised"),
                   lhs=str(ch_comp[2][1])[:200], rhs="tile(product row array, reps=n_agents)")
    ctx.count("data_space_parts", 2)
    # mask and segments
    cs = calls_in(tuple(frame_terms(fr)), "lcm.simulate.create_choice_segments")
    need(cs, "create_data_scs: create_choice_segments not called")
    mask = kw(cs[0], "mask")
    ok = kw(cs[0], "n_sparse_states") == n_states
    ctx.ob("LAY2:segments-agent-count", ok, prog.where(cs[0]),
           "choice segments are built for the number of agents" if ok else "n_sparse_states is not the number of agents",
           lhs=kw(cs[0], "n_sparse_states") or "missing", rhs=n_states)
    space = calls_in(tuple(frame_terms(fr)), "lcm.interfaces.Space")
    need(space, "no Space built")
    sp = kw(space[0], "sparse_vars")
    comb = sp[2] if sp is not None and sp[0] in ("phi", "ifexp") else sp
    ok = (comb is not None and comb[0] == "comp" and comb[1] == "dict" and comb[2][1][0] == "sub" and comb[2][1][2] == mask
          and comb[2][0] == comb[3][0][0][1][0] and comb[2][1][1] == comb[3][0][0][1][1])
    ctx.ob("LAY2:same-mask", ok, prog.where(sp) if sp else "",
           "the combination grid and the segment ids are filtered with the same mask" if ok else
           "rows of the data space and segment ids are selected by different masks", lhs=show(comb)[:160] if comb else "missing", rhs=show(mask)[:120] if mask else "missing")
    other = sp[3] if sp is not None and sp[0] in ("phi", "ifexp") else None
    if other is not None:
        ctx.ob("LAY2:no-sparse-choices-branch", other == states, prog.where(sp),
               "without restricted choices the agents' states themselves are the leading axis" if other == states
               else "without restricted choices the leading axis is not the agents' states", lhs=other)
        fflag = exists_formula(sp[1], {})
        ctx.ob("LAY2:branch-flag", fflag in (parse("is_sparse & is_choice"), parse("is_choice & is_sparse")), prog.where(sp),
               "the product branch is taken exactly when restricted choices exist", lhs=show(sp[1]))
    # the mask: all filters, aggregated with logical_and, period fixed, vmapped over everything but _period
    raw_mask = mask
    while mask is not None and ((mask[0] == "op" and mask[1] in ("asarray", "array", "astype") and mask[2])
                                or (callee_name(mask) in ("jax.numpy.asarray", "jax.numpy.array", "numpy.asarray") and mask[2])):
        mask = mask[2][0][1] if mask[0] == "op" else mask[2][0]  # a plain conversion of the filter result
    if mask is not None and mask[0] != "call":
        inner = [x for x in walk(mask) if x[0] == "call" and calls_in(x[1], "lcm.dispatchers.vmap_1d")]
        combined = bool(inner) and mask[0] in ("binop", "unop", "boolop", "op", "poly")
        ctx.ob("LAY2:mask-is-the-filter-result", False if combined else None, prog.where(raw_mask),
               "the result of the filters is combined with something else before rows are selected and segments are built "
               f"({show(mask)[:80]}): the rows kept are no longer exactly the rows that pass the filters" if combined else
               "the row mask is not recognised as the result of the row-wise filter call", lhs=show(mask)[:200])
    if mask is not None and mask[0] == "call":
        filt = mask[1]
        v1 = calls_in(filt, "lcm.dispatchers.vmap_1d")
        ok = bool(v1)
        if ok:
            sf = v1[0][2][0] if v1[0][2] else kw(v1[0], "func")
            cf = calls_in(sf, "dags.concatenate_functions")
            ok = bool(cf) and kw(cf[0], "aggregator") == ("glob", "jax.numpy.logical_and") \
                and kw(cf[0], "functions") == ("attr", ("param", q, "model"), "functions")
            tq = selections(kw(cf[0], "targets")) if cf else []
            ok = ok and bool(tq) and effective_formula(tq[0], {})[0] == parse("is_filter")
            vs = kw(v1[0], "variables")
            ok_v = vs is not None and vs[0] == "comp" and vs[3][0][2] == (("cmp", ("!=",), (vs[3][0][0], ("const", "_period"))),)
            ctx.ob("LAY2:mask-maps-all-but-period", ok_v, prog.where(v1[0]),
                   "the filter is evaluated row-wise over every argument except the (scalar) period" if ok_v else
                   "the row-wise filter does not map over all non-period arguments", lhs=vs or "missing")
        ctx.ob("LAY2:mask-is-all-filters", ok, prog.where(mask),
               "the row mask is the conjunction (logical_and) of all model filters" if ok else
               "the row mask is not the logical_and of all filter functions", lhs=show(filt)[:200])
        kws = [v for k, v in mask[3] if k is None]
        pp = ("param", q, "period")
        vals = []
        for x in kws:
            for d in deep_walk(prog, x):
                if is_term(d) and d[0] == "dict":
                    vals += [v for k, v in d[1] if k == ("const", "_period")]
                if is_term(d) and d[0] == "setitem" and d[2] == ("const", "_period"):
                    vals.append(d[3])
        if vals:
            offs = [affine(v, pp) for v in vals]
            fixed = True if all(o == (1, 0) for o in offs) else False if any(o is not None and o != (1, 0) for o in offs) else None
            why = ("filters are evaluated with _period = the current period" if fixed else
                   f"the filters are evaluated with _period = {show(vals[0])[:40]}, not with the period that is simulated" if fixed is False else
                   "the value passed as _period is not recognised")
        else:
            fixed = None if any(("const", "_period") in set(walk(x)) for x in kws) else False
            why = "the value passed as _period is not recognised" if fixed is None else "the filters do not receive the current period"
        ctx.ob("LAY2:mask-period", fixed, prog.where(mask), why, lhs=show(mask)[:200])


# ======================================================================================
# R4 AX5: row domains (taint: ROWS must not reach the results / next_state)
# ======================================================================================


@rule("R4.AX5")
def row_domains(ctx: Ctx):
    """In the configuration with restricted (sparse) choices the arrays produced by the
    continuous problem have one entry per (agent x feasible sparse choice) ROW.  Every such
    array must be selected by the segment arg-max (``x[sparse_argmax]``) or reduced by the
    segment max before it is stored or handed to next_state."""
    prog = ctx.prog
    fr, lp = sim_loop(prog)
    lid, nxt = lp.id, lp.next
    scp = calls_in(tuple(nxt.values()), "lcm.simulate.solve_continuous_problem")
    need(scp, "solve_continuous_problem not called")
    scp = scp[0]
    acc = [n for n, v in nxt.items() if v[0] == "mut" and v[2] == "append"]
    res = _append_elem(nxt[acc[0]], ("carried", lid, acc[0]))
    rd = {k[1]: v for k, v in res[1] if k is not None and k[0] == "const"}
    val = rd.get("value")
    dpc = val[1] if val is not None and val[0] == "sub" and val[1][0] == "call" else None
    need(dpc is not None, "discrete policy call not found")
    sparse_argmax = ("sub", dpc, ("const", 1))
    ds = calls_in(tuple(nxt.values()), DSC)
    data_space = ("sub", ds[0], ("const", 0)) if ds else None

    def is_none_test(c):
        if c[0] == "cmp" and c[1] in (("is",), ("is not",)) and c[2][1] == ("const", None):
            return c[2][0], c[1] == ("is",)
        return None

    none_here: list = []

    def rows(t, depth=0):  # noqa: C901, PLR0911
        """True if t (may) have the ROWS leading domain in the sparse configuration."""
        if not is_term(t) or depth > 60:
            return False
        if t in none_here:
            return False
        if t[0] in ("phi", "ifexp"):
            nt = is_none_test(t[1])
            if nt is not None and nt[0] == sparse_argmax:
                # sparse configuration: sparse_argmax is not None
                return rows(t[3] if nt[1] else t[2], depth + 1)
            if nt is not None:
                x, none_when_true = nt
                a, b = (t[2], t[3]) if none_when_true else (t[3], t[2])  # a: x is None, b: x is an array
                none_here.append(x)
                ra = rows(a, depth + 1)
                none_here.pop()
                return ra or rows(b, depth + 1)
            return rows(t[2], depth + 1) or rows(t[3], depth + 1)
        if t[0] == "sub":
            if t[2] == sparse_argmax:
                return False  # selected by the optimal sparse choice -> one entry per agent
            if t[1] == scp:
                return True
            if t[1] == dpc:
                return t[2] == ("const", 0)  # dense arg-max per row; [1] indexes rows per agent; [2] is per agent
            return rows(t[1], depth + 1)
        if t[0] == "attr":
            if t[1] == data_space and t[2] == "sparse_vars":
                return True
            if t[1] == data_space:
                return False
            return rows(t[1], depth + 1)
        if t[0] == "call":
            if t == scp:
                return True
            if t == dpc:
                return False
            if t[0] == "call" and t[1][0] == "attr" and t[1][2] in ("values", "items", "keys"):
                return rows(t[1][1], depth + 1)
            if callee_name(t) in ("builtins.len", "builtins.tuple") :
                return False
            return any(rows(a, depth + 1) for a in t[2]) or any(rows(v, depth + 1) for _k, v in t[3])
        if t[0] in ("tuple", "list", "set"):
            return any(rows(x, depth + 1) for x in t[1])
        if t[0] == "dict":
            return any(rows(v, depth + 1) for _k, v in t[1])
        if t[0] == "comp":
            elt = t[2]
            parts = list(elt) if t[1] == "dict" else [elt]
            return any(rows(x, depth + 1) for x in parts)
        if t[0] == "star":
            return rows(t[1], depth + 1)
        if t[0] == "binop":
            return rows(t[2], depth + 1) or rows(t[3], depth + 1)
        return False

    for key in ("value", "choices", "states"):
        bad = rows(rd[key])
        ctx.ob(f"AX5:stored-{key}-per-agent", not bad, prog.where(rd[key]),
               f"'{key}' has one entry per agent also when restricted choices exist" if not bad else
               f"with restricted (sparse) choices '{key}' keeps one entry per (agent x sparse choice) row: "
               "an array derived from the conditional problem is not selected by sparse_argmax",
               lhs=show(rd[key])[:300])
    ns = [s for v in nxt.values() for s in walk(v) if s[0] == "call" and s[1] == ("param", SIM, "next_state")]
    if ns:
        bad = any(rows(v) for _k, v in ns[0][3])
        ctx.ob("AX5:next-state-arguments-per-agent", not bad, prog.where(ns[0]),
               "next_state receives one entry per agent for every argument" if not bad else
               "next_state receives row-domain arrays (agent x sparse choice)", lhs=show(ns[0])[:200])
    # the selection is applied to row-domain arrays only
    misuse = []
    for v in nxt.values():
        for s in walk(v):
            if s[0] == "sub" and s[2] == sparse_argmax and not rows(s[1]):
                misuse.append(s)
    ctx.ob("AX5:selection-applied-to-rows-only", not misuse, prog.where(misuse[0]) if misuse else prog.where(res),
           "sparse_argmax (row index per agent) only indexes row-domain arrays" if not misuse else
           "sparse_argmax indexes an array that has one entry per agent already (selected twice?)",
           lhs=show(misuse[0])[:200] if misuse else "")
    # segment ids passed to the discrete policy are the ones of this data space
    part = dpc[1]
    want_seg = ("sub", ds[0], ("const", 1)) if ds else None
    seg = kw(part, "choice_segments") if callee_name(part) == "functools.partial" else None
    seg = kw(dpc, "choice_segments") if kw(dpc, "choice_segments") is not None else seg  # bound at the call wins
    seg_ok = bool(ds) and seg == want_seg
    if seg is None and bool(ds):
        seg_ok = None  # not bound by partial(...) nor at the call: bound somewhere this rule does not look
    ctx.ob("AX5:segments-of-this-data-space", seg_ok if seg_ok is None else bool(seg_ok), prog.where(dpc),
           "the segment arg-max uses the choice segments created together with this period's data space" if seg_ok
           else "the discrete policy calculator does not receive this data space's choice segments", lhs=show(part)[:200])
    ctx.count("configs", 1)
