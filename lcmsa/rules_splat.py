"""R11 SPLAT -- keyword families at the strict call sites of the solve space.

The mapped function (u_and_f behind compute_ccv) accepts exactly the names in its signature;
``spacemap`` looks every mapped variable up in that signature and ``allow_only_kwargs``
rejects extra names.  The *families* of names on both sides are described by boolean formulas
over variable classes that are extended by three usage columns:

    U  the variable is an argument of the utility/constraint DAG   (current_u_and_f)
    N  the variable is an argument of a transition / weight function (next_state, next_weights)
    is_sparse  the variable is an argument of a filter (already a column)

with  is_auxiliary := is_state & ~U & ~is_sparse  (read from _get_auxiliary_variables: a state
that is no ancestor of any non-next function; filters are non-next functions).
"""

from __future__ import annotations

import itertools

from lcmsa.core import AnalysisError, callee_name, kw, show, walk
from lcmsa.formula import evaluate, show_formula
from lcmsa.match import effective_formula, need, selections
from lcmsa.report import Ctx, rule
from lcmsa.rules_bellman import UF, _closures, _is_last
from lcmsa.rules_qa import Roles

MF = "lcm.model_functions"
FAMILY_OF = {
    f"{MF}.get_current_u_and_f": ("col", "U"),
    "lcm.next_state.get_next_state_function": ("col", "N"),
    f"{MF}.get_next_weights_function": ("col", "NW"),  # arguments of stochastic transitions: NW => N
    "lcm.function_representation.get_function_representation": ("lit", False),
}


def usage_universe():
    rows = []
    for st, co, sp, u, n, nw in itertools.product([False, True], repeat=6):
        if nw and not n:
            continue
        row = {"is_state": st, "is_choice": not st, "is_continuous": co, "is_discrete": not co,
               "is_sparse": sp, "is_dense": not sp, "U": u, "N": n, "NW": nw, "is_stochastic": False}
        row["is_auxiliary"] = st and not u and not sp
        rows.append(row)
    return rows


def category(r):
    kind = "state" if r["is_state"] else "choice"
    if r["U"]:
        use = "utility-or-constraint"
    elif r["is_sparse"] and not r["N"]:
        use = "only-filters"
    elif r["is_sparse"] and r["N"]:
        use = "only-filters-and-transitions"
    elif r["N"]:
        use = "only-transitions"
    else:
        use = "nothing"
    return kind, use


@rule("R11.SPLAT")
def splat_families(ctx: Ctx):
    prog = ctx.prog
    fr = prog.frame(UF)
    # the signature of u_and_f: with_signature(args=<arg_names>) on the closures
    arg_names = rel = None
    for t_ in fr.env.values():
        for s_ in walk(t_):
            if callee_name(s_) == "dags.signature.with_signature" and kw(s_, "args") is not None:
                arg_names = kw(s_, "args")
    need(arg_names, "u_and_f is not given a signature by with_signature(args=...)")
    for s_ in walk(arg_names):
        if callee_name(s_) == "lcm.functools.get_union_of_arguments":
            rel = s_[2][0] if s_[2] else kw(s_, "list_of_functions")
    need(rel is not None, "the signature of u_and_f is not the union of the arguments of component functions")
    # the closures are defined under is_last_period / not is_last_period: the list was specialised per branch; use
    # the un-specialised definition from the factory frame
    for t_ in fr.env.values():
        if t_[0] in ("phi", "ifexp") and t_[1] == ("param", UF, "is_last_period") and t_[2][0] == "list" and t_[3][0] == "list" \
                and (rel == t_[2] or rel == t_[3] or rel == t_):
            rel = t_
    need(rel[0] in ("phi", "ifexp") and rel[1] == ("param", UF, "is_last_period"),
         "the component function list does not depend on is_last_period in the expected way")
    ok_src = True
    ctx.ob("SPLAT:signature-source", ok_src if ok_src else None, prog.where(arg_names),
           "the signature of u_and_f is the union of the arguments of its component functions" if ok_src else
           "source of u_and_f's signature not recognised", lhs=show(arg_names)[:200])

    def accepted(lst):
        need(lst[0] == "list", "relevant_functions is not a list display")
        f = ("lit", False)
        for x in lst[1]:
            name = callee_name(x)
            if name not in FAMILY_OF:
                raise AnalysisError(f"component function {show(x)[:60]} has no known argument family")
            f = ("or", f, FAMILY_OF[name])
        return f

    acc = {True: accepted(rel[2]), False: accepted(rel[3])}
    R = Roles(prog)
    rows = usage_universe()
    seen = set()
    n_classes = 0
    for last in (True, False):
        flags = {"is_last_period": last}
        parts = []
        for t in (R.dense(), R.sparse(), R.cont_choice()):
            f, _ = effective_formula(t, flags)
            parts.append(f)
        passed = ("or", parts[0], ("or", parts[1], parts[2]))
        tag = "last" if last else "nonlast"
        for r in rows:
            if r["is_sparse"] and r["is_continuous"]:
                continue  # D6 territory (continuous variable in a filter), reported by R2
            if not evaluate(passed, r):
                continue
            n_classes += 1
            if evaluate(acc[last], r):
                continue
            kind, use = category(r)
            key = f"SPLAT:S1:{kind}:{use}:{tag}"
            if key in seen:
                continue
            seen.add(key)
            ctx.ob(key, False, prog.where(rel),
                   f"a {kind} that enters {use.replace('-', ' ')} is mapped over in the {tag.replace('nonlast', 'non-last')} "
                   f"period's space ({show_formula(passed)}) but is not an argument of u_and_f "
                   f"({show_formula(acc[last])}): spacemap cannot find it in the signature",
                   lhs=show_formula(passed), rhs=show_formula(acc[last]))
    ctx.count("usage_classes_checked", n_classes)
    if not seen:
        ctx.ob("SPLAT:S1:all-mapped-variables-accepted", True, prog.where(rel),
               "every variable class of the space is an argument of u_and_f in both period kinds")
    # ---------------------------------------------------------------- S2: next states -> value function
    _fr, cl = _closures(prog, UF, "u_and_f")
    nonlast = [c for c in cl if _is_last(c[1]) is False]
    need(nonlast, "non-last u_and_f not found")
    cf = nonlast[0][2]
    vf_calls = [s for s in walk(cf.ret) if s[0] == "call" and callee_name(s[1]) == "lcm.dispatchers.productmap"
                and any(callee_name(x) == "lcm.function_representation.get_function_representation" for x in walk(s[1]))]
    need(vf_calls, "value function call not found")
    vc = vf_calls[0]
    ns = [v for k, v in vc[3] if k is None and v[0] == "call" and callee_name(v[1]) == "lcm.next_state.get_next_state_function"]
    need(ns, "next states are not splatted into the value function")
    # passed: next_<s> for every is_next function == every state (validated); accepted: next_<v> for the axes of
    # the next period's space info == states of that period's variable info (non-auxiliary if it is the last)
    css = prog.frame("lcm.state_space.create_state_choice_space")
    from lcmsa.formula import parse
    from lcmsa.match import frame_terms, is_query

    drops_aux = False
    for t_ in frame_terms(css):
        for s_ in walk(t_):
            if s_[0] in ("phi", "ifexp") and s_[1] == ("param", "lcm.state_space.create_state_choice_space", "is_last_period") \
                    and is_query(s_[2]) and parse(is_query(s_[2])[1]) == ("not", ("col", "is_auxiliary")):
                drops_aux = True
    strict = kw(vc[1], "variables") is not None  # productmap -> allow_only_kwargs: extra names are rejected
    if drops_aux and strict:
        ctx.ob("SPLAT:S2:auxiliary-state:next-period-is-last", False, prog.where(vc),
               "next_state returns next_<s> for every state, all are splatted into the value function of the next "
               "period; the LAST period's space drops auxiliary states (~is_auxiliary), so its value function does not "
               "accept next_<auxiliary state>: 'got extra' at the first solve of any model with an auxiliary state",
               lhs="next_<s> for s in is_state", rhs="next_<s> for s in is_state & ~is_auxiliary")
    else:
        ctx.ob("SPLAT:S2:next-states-accepted", True if not drops_aux else None, prog.where(vc),
               "the value function accepts next_<s> for every state" if not drops_aux else "S2 not recognised")
    ctx.floor("usage_classes_checked", 20)
