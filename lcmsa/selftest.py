"""Self-test: the checker must fire on breaking variants and stay silent on preserving ones.

Variants are produced from the CURRENT tree in a scratch directory under /dev/shm (or the
system temp dir), analysed there and removed.  A variant whose anchor text is not present
in the current tree is reported as ``skipped`` (the tree changed; not a verdict).
"""

from __future__ import annotations

import ast
import json
import os
import shutil
import sys
import tempfile
from concurrent.futures import ProcessPoolExecutor
from pathlib import Path

from lcmsa.core import REPO
from lcmsa.report import REFUTED, UNDECIDED, VERIF


def _scratch_root():
    base = "/dev/shm" if os.path.isdir("/dev/shm") and os.access("/dev/shm", os.W_OK) else tempfile.gettempdir()
    return Path(tempfile.mkdtemp(prefix="lcmsa-selftest-", dir=base))


def _copy_tree(dst: Path):
    (dst / "src").mkdir(parents=True)
    shutil.copytree(REPO / "src" / "lcm", dst / "src" / "lcm",
                    ignore=shutil.ignore_patterns("__pycache__", "sandbox"))


def _apply_variant(root: Path, v) -> str | None:
    """Apply one variant to the scratch tree. Returns None if applied, else the reason."""
    if v.get("kind") == "unparse":
        for p in (root / "src" / "lcm").rglob("*.py"):
            p.write_text(ast.unparse(ast.parse(p.read_text())) + "\n")
        return None
    if v.get("kind") == "rename_locals":
        for p in (root / "src" / "lcm").rglob("*.py"):
            p.write_text(_rename_locals(p.read_text()) + "\n")
        return None
    if v.get("kind") == "strip_docs":
        for p in (root / "src" / "lcm").rglob("*.py"):
            tree = ast.parse(p.read_text())
            for n in ast.walk(tree):
                if isinstance(n, (ast.FunctionDef, ast.ClassDef, ast.Module)) and n.body and isinstance(n.body[0], ast.Expr) \
                        and isinstance(n.body[0].value, ast.Constant) and isinstance(n.body[0].value.value, str):
                    n.body = n.body[1:] or [ast.Pass()]
            p.write_text(ast.unparse(tree) + "\n")
        return None
    if v.get("kind") == "patch":
        import subprocess

        r = subprocess.run(["git", "apply", "--unsafe-paths", f"--directory={root}", v["patch"]],  # noqa: S603, S607
                           capture_output=True, text=True, cwd="/")
        if r.returncode != 0:
            # fall back to patch(1)-less manual apply: not available -> skipped
            return f"patch does not apply: {r.stderr.strip()[:200]}"
        return None
    for ed in v["edits"]:
        p = root / "src" / "lcm" / ed["file"]
        if not p.exists():
            return f"{ed['file']} missing"
        s = p.read_text()
        n = s.count(ed["old"])
        if n != ed.get("count", 1):
            return f"anchor text found {n}x in {ed['file']} (expected {ed.get('count', 1)})"
        s = s.replace(ed["old"], ed["new"])
        try:
            ast.parse(s)
        except SyntaxError as e:
            return f"variant does not parse: {e}"
        p.write_text(s)
    return None


def _rename_locals(source: str) -> str:
    """Rename every local variable (not parameters, not names shared with nested scopes in a
    conflicting way) of every module-level function: x -> x_r.  Behaviour-preserving."""
    tree = ast.parse(source)

    class Renamer(ast.NodeTransformer):
        def __init__(self, names, top):
            self.names = names
            self.top = top

        def visit_Name(self, node):
            if node.id in self.names:
                node.id = node.id + "_r"
            return node

        def visit_FunctionDef(self, node):
            if node.name in self.names and node is not self.top:
                node.name = node.name + "_r"
            self.generic_visit(node)
            return node

    def params_of(fn):
        a = fn.args
        out = {x.arg for x in a.posonlyargs + a.args + a.kwonlyargs}
        if a.vararg:
            out.add(a.vararg.arg)
        if a.kwarg:
            out.add(a.kwarg.arg)
        return out

    for fn in [n for n in tree.body if isinstance(n, ast.FunctionDef)]:
        assigned = set()
        nested_params = set()
        has_global = False
        for n in ast.walk(fn):
            if isinstance(n, ast.Name) and isinstance(n.ctx, ast.Store):
                assigned.add(n.id)
            if isinstance(n, ast.FunctionDef) and n is not fn:
                assigned.add(n.name)
                nested_params |= params_of(n)
            if isinstance(n, (ast.Global, ast.Nonlocal)):
                has_global = True
            if isinstance(n, (ast.ListComp, ast.SetComp, ast.DictComp, ast.GeneratorExp)):
                pass
        if has_global:
            continue
        names = assigned - params_of(fn) - nested_params
        # keep keyword names of calls intact: keywords are not Name nodes, nothing to do
        Renamer(names, fn).visit(fn)
    return ast.unparse(tree)


def _run_variant(args):
    v, props = args
    root = _scratch_root()
    try:
        _copy_tree(root)
        why = _apply_variant(root, v)
        if why is not None:
            return {"id": v["id"], "outcome": "skipped", "why": why}
        # analyse in-process with a fresh Program on the scratch tree
        from lcmsa import registry
        from lcmsa.__main__ import run_property
        from lcmsa.core import Program

        prog = Program(root)
        cache: dict = {}
        fired, undecided, keys = [], [], []
        for p in props:
            if p not in registry.PROPERTIES:
                continue
            st, res, _ = run_property(p, "quick", 0, prog, cache, quiet=True, write=False)
            from lcmsa.report import load_known

            known = {k.key for k in load_known() if k.prop == p}
            for o in res.obs:
                if o.status == REFUTED and o.key not in known:
                    fired.append(p)
                    keys.append(f"{p}:{o.key}")
                elif o.status == UNDECIDED:
                    undecided.append(f"{p}:{o.key}")
        return {"id": v["id"], "outcome": "ran", "fired": sorted(set(fired)), "keys": keys[:6],
                "undecided": undecided[:6], "not_passing": sorted(set(fired) | {u.split(":")[0] for u in undecided})}
    except Exception as e:  # noqa: BLE001
        import traceback

        return {"id": v["id"], "outcome": "error", "why": f"{type(e).__name__}: {e}", "tb": traceback.format_exc(limit=5)}
    finally:
        shutil.rmtree(root, ignore_errors=True)


def catalogue():
    from lcmsa import mutants

    out = list(mutants.VARIANTS)
    seeded = VERIF / "seeded"
    if seeded.is_dir():
        for d in sorted(seeded.iterdir()):
            meta, patch = d / "meta.json", d / "patch.diff"
            if meta.exists() and patch.exists():
                m = json.loads(meta.read_text())
                out.append({"id": f"seed-{d.name}", "kind": "patch", "patch": str(patch), "own": m["property"],
                            "props": sorted(set((m.get("detected_by") or m.get("undecided_by") or []) + [m["property"]])),
                            "expect": "fire" if m.get("detected_by") else "no-pass" if m.get("undecided_by") else "miss-ok",
                            "why": m.get("summary", "")})
    refs = VERIF / "refactors"
    if refs.is_dir():
        for d in sorted(refs.iterdir()):
            patch = d / "patch.diff"
            if patch.exists():
                why, allow = "", False
                if (d / "meta.json").exists():
                    m = json.loads((d / "meta.json").read_text())
                    why, allow = m.get("summary", ""), bool(m.get("allow_undecided"))
                out.append({"id": f"refactor-{d.name}", "kind": "patch", "patch": str(patch), "props": [],
                            "expect": "silent", "allow_undecided": allow, "why": why[:160]})
    return out


def run(props_filter=None, ids=None, jobs=None):
    vs = catalogue()
    work = []
    for v in vs:
        if ids and v["id"] not in ids:
            continue
        props = v["props"]
        if props_filter and not (set(props) & set(props_filter)) and v.get("expect") != "silent":
            continue
        if v.get("expect") == "silent":
            # a behaviour-preserving change must keep EVERY property's check quiet
            from lcmsa import registry

            props = props_filter or sorted(registry.PROPERTIES)
        work.append((v, list(props)))
    jobs = jobs or min(16, os.cpu_count() or 4)
    with ProcessPoolExecutor(max_workers=jobs) as ex:
        results = list(ex.map(_run_variant, work))
    table = []
    miss = 0
    for (v, props), r in zip(work, results, strict=True):
        expect = v.get("expect", "fire")
        row = {"id": v["id"], "expect": expect, "props": props, **{k: r[k] for k in r if k != "id"}}
        if r["outcome"] == "ran":
            if expect == "fire":
                want = set(v.get("must_fire", props)) & set(props)
                row["ok"] = bool(set(r["fired"]) & want) if want else bool(r["fired"])
            elif expect == "silent":
                row["ok"] = not r["fired"] and (v.get("allow_undecided") or not r["undecided"])
            elif expect == "undecided-ok":
                row["ok"] = not r["fired"]
            elif expect == "no-pass":
                # a breaking change that the comparison cannot decide: the check must not pass (REFUTED or UNDECIDED, exit != 0)
                row["ok"] = bool(r["fired"]) or bool(r["undecided"])
            else:
                row["ok"] = True
            if row["ok"] and v.get("own") and v["own"] in props and expect in ("fire", "no-pass"):
                # the check of the property the change was written against must not pass (REFUTED or UNDECIDED)
                row["ok"] = v["own"] in r.get("not_passing", [])
                if not row["ok"]:
                    row["why"] = f"the check of its own property {v['own']} passes"
            if not row["ok"]:
                miss += 1
        elif r["outcome"] == "error":
            row["ok"] = False
            miss += 1
        else:
            row["ok"] = None
        table.append(row)
    return table, miss


def summarise(table):
    return {
        "variants_breaking": sum(1 for r in table if r["expect"] in ("fire", "no-pass")),
        "detected": sum(1 for r in table if r["expect"] == "fire" and r.get("ok")),
        "breaking_undecided": sum(1 for r in table if r["expect"] == "no-pass" and r.get("ok")),
        "variants_preserving": sum(1 for r in table if r["expect"] in ("silent", "undecided-ok")),
        "silent": sum(1 for r in table if r["expect"] in ("silent", "undecided-ok") and r.get("ok")),
        "skipped": sum(1 for r in table if r["outcome"] == "skipped"),
        "rows": [{k: r.get(k) for k in ("id", "expect", "ok", "fired", "keys", "why", "outcome") if r.get(k) is not None}
                 for r in table],
    }


def run_for_property(prop, seed=0):
    """Thorough tier: run the variants relevant to ``prop``; add the table to the evidence."""
    table, miss = run(props_filter=[prop])
    summ = summarise(table)
    evp = VERIF / "evidence" / f"{prop}.json"
    if evp.exists():
        ev = json.loads(evp.read_text())
        ev["coverage"]["selftest"] = summ
        evp.write_text(json.dumps(ev, indent=1) + "\n")
    print(f"[{prop}] selftest: breaking {summ['detected']}/{summ['variants_breaking']} detected, "
          f"preserving {summ['silent']}/{summ['variants_preserving']} silent, skipped {summ['skipped']}")
    # systematic single-edit mutants of the anchored mechanisms: a measurement, not a gate
    limit = int(os.environ.get("LCMSA_MUTANTS", "120"))
    if limit > 0:
        from lcmsa import mutgen

        sweep = mutgen.run(prop, mutgen.anchors_of(prop), seed=seed, limit=limit)
        if evp.exists():
            ev = json.loads(evp.read_text())
            ev["coverage"]["mutation_sweep"] = {
                "what": "single-edit AST mutants (14 operators) of the functions named in the property's anchors, analysed "
                        "statically with this property's rules; survivors are equivalent edits or blind spots (not violations)",
                **sweep,
            }
            evp.write_text(json.dumps(ev, indent=1) + "\n")
        print(f"[{prop}] mutation sweep: {sweep['killed']} refuted, {sweep['undecided']} undecided, "
              f"{sweep['survived']} survived of {sweep['generated']} single-edit mutants of the anchored functions")
    for r in table:
        if r.get("ok") is False:
            print(f"SELFTEST-MISS {r['id']} expect={r['expect']} fired={r.get('fired')} undecided={r.get('undecided')} {r.get('why', '')}")
    return 2 if miss else 0


if __name__ == "__main__":
    import argparse

    ap = argparse.ArgumentParser()
    ap.add_argument("--ids", nargs="*")
    ap.add_argument("--props", nargs="*")
    ap.add_argument("-v", action="store_true")
    ap.add_argument("--patch", nargs="*", help="ad-hoc: apply these patch files and report which properties fire")
    a = ap.parse_args()
    if a.patch:
        from lcmsa import registry

        for pf in a.patch:
            r = _run_variant(({"id": pf, "kind": "patch", "patch": os.path.abspath(pf)}, a.props or sorted(registry.PROPERTIES)))
            print(pf, r.get("outcome"), "fired=", r.get("fired"), r.get("keys"), r.get("undecided"), r.get("why", ""), r.get("tb", ""))
        sys.exit(0)
    table, miss = run(props_filter=a.props, ids=a.ids)
    for r in table:
        flag = {True: "ok  ", False: "MISS", None: "skip"}[r.get("ok")]
        print(flag, r["id"], r["expect"], "fired=", r.get("fired"), (r.get("keys") or [])[:3] if a.v else "",
              r.get("why", "") if r.get("ok") is not True else "", (r.get("undecided") or [])[:2] if r.get("ok") is False else "",
              r.get("tb", "") if a.v else "")
    s = summarise(table)
    print({k: s[k] for k in s if k != "rows"})
    if os.environ.get("LCMSA_SELFTEST_TABLE"):
        Path(os.environ["LCMSA_SELFTEST_TABLE"]).write_text(json.dumps(
            [{k: r.get(k) for k in ("id", "expect", "ok", "fired", "keys", "undecided", "not_passing")} for r in table], indent=1))
    sys.exit(2 if miss else 0)
