"""A small interpreter over value-graph TERMS (not over the repository's code).

Used by the guard rules to decide, for a finite set of witness inputs, whether an extracted guard
(the path conditions of a `raise`) holds.  It evaluates the terms that the front end built from the
source -- displays, comparisons, boolean connectives, arithmetic, comprehensions, the builtins that the
validators use, loops (through the loop tables) -- on concrete witness values.  Nothing of /repo is
imported or executed; a construct outside the vocabulary raises `Unknown` (the obligation is then
UNDECIDED, never decided by guessing).
"""
from __future__ import annotations

import math

from lcmsa.core import callee_name, is_term


class Unknown(Exception):
    pass


class _Undef:
    def __repr__(self):
        return "<undef>"


UNDEF = _Undef()


class Witness:
    """A witness object with attributes (stands for a user object such as a category class)."""

    def __init__(self, **kw):
        self.__dict__.update(kw)

    def __repr__(self):
        return f"Witness({self.__dict__})"

_TYPES = {"builtins.int": int, "builtins.float": float, "builtins.bool": bool, "builtins.str": str, "builtins.list": list,
          "builtins.tuple": tuple, "builtins.dict": dict, "builtins.set": set, "builtins.type": type,
          "collections.abc.Mapping": dict, "collections.abc.Sequence": (list, tuple), "numbers.Number": __import__("numbers").Number,
          "numbers.Real": __import__("numbers").Real, "numbers.Integral": __import__("numbers").Integral, "types.NoneType": type(None)}
_PURE = {
    "builtins.len": len, "builtins.set": set, "builtins.list": list, "builtins.tuple": tuple, "builtins.sorted": sorted,
    "builtins.range": range, "builtins.all": all, "builtins.any": any, "builtins.sum": sum, "builtins.min": min,
    "builtins.max": max, "builtins.dict": dict, "builtins.zip": zip, "builtins.enumerate": enumerate, "builtins.bool": bool,
    "builtins.int": int, "builtins.float": float, "builtins.str": str, "builtins.abs": abs, "builtins.type": type,
    "builtins.reversed": lambda x: list(reversed(x)), "builtins.frozenset": frozenset, "builtins.repr": repr,
    "math.isfinite": math.isfinite, "math.isnan": math.isnan, "math.isinf": math.isinf, "math.prod": math.prod,
    "builtins.isinstance": isinstance, "builtins.iter": iter, "builtins.next": next, "builtins.getattr": getattr,
    "builtins.hasattr": hasattr,
    "operator.eq": lambda a, b: a == b, "operator.ne": lambda a, b: a != b,
}
_METHODS = {"items", "values", "keys", "get", "count", "index", "startswith", "endswith", "removeprefix", "removesuffix",
            "union", "difference", "intersection", "issubset", "issuperset", "isdisjoint", "copy", "join", "format", "is_integer"}
_CMP = {"<": lambda a, b: a < b, "<=": lambda a, b: a <= b, ">": lambda a, b: a > b, ">=": lambda a, b: a >= b,
        "==": lambda a, b: a == b, "!=": lambda a, b: a != b, "is": lambda a, b: a is b, "is not": lambda a, b: a is not b,
        "in": lambda a, b: a in b, "not in": lambda a, b: a not in b}
_BIN = {"+": lambda a, b: a + b, "-": lambda a, b: a - b, "*": lambda a, b: a * b, "/": lambda a, b: a / b,
        "//": lambda a, b: a // b, "%": lambda a, b: a % b, "**": lambda a, b: a ** b, "&": lambda a, b: a & b,
        "^": lambda a, b: a ^ b}


class Evaluator:
    def __init__(self, prog=None, funcs=None, budget=200000):
        self.prog = prog
        self.funcs = funcs or {}  # dotted name / ('func', q) -> python callable on evaluated arguments
        self.budget = budget

    # ------------------------------------------------------------------ public
    def ev(self, t, env):  # noqa: C901, PLR0911, PLR0912, PLR0915
        self.budget -= 1
        if self.budget < 0:
            raise Unknown("evaluation budget exhausted")
        if t in env:
            return env[t]
        if not is_term(t):
            raise Unknown(f"not a term: {t!r}"[:80])
        tag = t[0]
        if tag == "const":
            return t[1]
        if tag == "undef":
            return UNDEF
        if tag in ("list", "tuple", "set"):
            out = []
            for x in t[1]:
                if x[0] == "star":
                    out.extend(self.ev(x[1], env))
                else:
                    out.append(self.ev(x, env))
            return {"list": list, "tuple": tuple, "set": set}[tag](out)
        if tag == "dict":
            d = {}
            for k, v in t[1]:
                if k is None:
                    d.update(self.ev(v, env))
                else:
                    d[self.ev(k, env)] = self.ev(v, env)
            return d
        if tag == "fstr":
            return "".join(str(self._try(x, env)) for x in t[1])
        if tag == "cmp":
            vals = [self.ev(x, env) for x in t[2]]
            for op, a, b in zip(t[1], vals[:-1], vals[1:], strict=True):
                try:
                    if not _CMP[op](a, b):
                        return False
                except TypeError as e:
                    raise Unknown(str(e)) from e
            return True
        if tag == "boolop":
            v = t[1] == "and"
            for x in t[2]:
                v = self.ev(x, env)
                if (t[1] == "and") != bool(v):
                    return v
            return v
        if tag == "not":
            return not self.ev(t[1], env)
        if tag == "unop":
            v = self.ev(t[2], env)
            try:
                return {"not": lambda: not v, "-": lambda: -v, "+": lambda: +v, "~": lambda: ~v}[t[1]]()
            except (TypeError, KeyError) as e:
                raise Unknown(str(e)) from e
        if tag == "binop":
            a = self.ev(t[2], env)
            b = self.ev(t[3], env)
            if t[1] == "|":
                if isinstance(a, (type, tuple)) and isinstance(b, (type, tuple)):
                    return (*(a if isinstance(a, tuple) else (a,)), *(b if isinstance(b, tuple) else (b,)))
                try:
                    return a | b
                except TypeError as e:
                    raise Unknown(str(e)) from e
            try:
                return _BIN[t[1]](a, b)
            except ZeroDivisionError:
                raise
            except (TypeError, KeyError, OverflowError, ValueError) as e:
                raise Unknown(str(e)) from e
        if tag in ("phi", "ifexp"):
            return self.ev(t[2], env) if self.ev(t[1], env) else self.ev(t[3], env)
        if tag in ("glob", "class", "func"):
            if t[1] in _TYPES:
                return _TYPES[t[1]]
            if t[1] in self.funcs:
                return self.funcs[t[1]]
            if t[1] in ("math.inf", "jax.numpy.inf", "numpy.inf"):
                return math.inf
            if t[1] in ("math.nan", "jax.numpy.nan", "numpy.nan"):
                return math.nan
            raise Unknown(t[1])
        if tag == "attr":
            v = self.ev(t[1], env)
            if isinstance(v, dict) and t[2] in v and not hasattr(dict, t[2]):
                return v[t[2]]
            if t[2] in ("real", "imag", "__name__") and hasattr(v, t[2]):
                return getattr(v, t[2])
            if isinstance(v, Witness) and hasattr(v, t[2]):
                return getattr(v, t[2])
            raise Unknown(f"attribute {t[2]}")
        if tag == "sub":
            v = self.ev(t[1], env)
            i = t[2]
            if i[0] == "slice":
                parts = [None if (p is None or p == ("const", None)) else self.ev(p, env) for p in i[1:4]]
                idx = slice(*parts)
            else:
                idx = self.ev(i, env)
            try:
                return v[idx]
            except (KeyError, IndexError, TypeError) as e:
                raise Unknown(f"subscript: {e}") from e
        if tag == "comp":
            return self._comp(t, env)
        if tag == "call":
            return self._call(t, env)
        if tag == "mut":
            base = self.ev(t[1], env)
            args = [self.ev(a, env) for a in t[3]]
            base = base.copy() if hasattr(base, "copy") else base
            try:
                getattr(base, t[2])(*args)
            except Exception as e:  # noqa: BLE001
                raise Unknown(f"{t[2]}: {e}") from e
            return base
        if tag == "setitem":
            base = self.ev(t[1], env)
            base = base.copy()
            base[self.ev(t[2], env)] = self.ev(t[3], env)
            return base
        if tag in ("loopout", "carried", "loopvar"):
            return self._loop(t, env)
        if tag == "lambda":
            names, body = t[1], t[2]

            def f(*a):
                e2 = dict(env)
                for k, v in enumerate(a):
                    e2[("bv", int(names[k].split("_")[0][2:]) if names[k].startswith("_b") else 0, k)] = v
                return self.ev(body, e2)
            return f
        raise Unknown(tag)

    def truth(self, c, env):
        return bool(self.ev(c, env))

    # ------------------------------------------------------------------ pieces
    def _try(self, x, env):
        try:
            return self.ev(x, env)
        except Unknown:
            return "<?>"

    def _bind(self, tg, val, env):
        if tg[0] == "bv":
            env[tg] = val
        elif tg[0] == "tuple":
            vals = list(val)
            if len(vals) != len(tg[1]):
                raise Unknown("unpacking")
            for x, v in zip(tg[1], vals, strict=True):
                self._bind(x, v, env)
        else:
            raise Unknown("comprehension target")

    def _comp(self, t, env):
        kind, elt, gens = t[1], t[2], t[3]
        out = []

        def rec(k, e):
            if k == len(gens):
                out.append((self.ev(elt[0], e), self.ev(elt[1], e)) if kind == "dict" else self.ev(elt, e))
                return
            tg, it, conds = gens[k]
            seq = self.ev(it, e)
            try:
                items = list(seq)
            except TypeError as ex:
                raise Unknown(str(ex)) from ex
            for v in items:
                e2 = dict(e)
                self._bind(tg, v, e2)
                if all(self.truth(c, e2) for c in conds):
                    rec(k + 1, e2)

        rec(0, dict(env))
        return dict(out) if kind == "dict" else set(out) if kind == "set" else out

    def _call(self, t, env):  # noqa: C901
        f = t[1]
        name = callee_name(t)
        args = []
        for a in t[2]:
            if a[0] == "star":
                args.extend(self.ev(a[1], env))
            else:
                args.append(self.ev(a, env))
        kws = {}
        for k, v in t[3]:
            if k is None:
                kws.update(self.ev(v, env))
            else:
                kws[k] = self.ev(v, env)
        if name in self.funcs:
            return self.funcs[name](*args, **kws)
        if is_term(f) and f[0] in ("func", "class", "glob") and f[1] in self.funcs:
            return self.funcs[f[1]](*args, **kws)
        if name in _PURE:
            if name == "builtins.zip":
                kws.pop("strict", None)
            try:
                r = _PURE[name](*args, **kws)
            except (TypeError, ValueError, OverflowError) as e:
                raise Unknown(f"{name}: {e}") from e
            return list(r) if name in ("builtins.zip", "builtins.enumerate", "builtins.range") else r
        if is_term(f) and f[0] == "attr" and f[2] in _METHODS:
            recv = self.ev(f[1], env)
            try:
                r = getattr(recv, f[2])(*args, **kws)
            except Exception as e:  # noqa: BLE001
                raise Unknown(f".{f[2]}: {e}") from e
            return list(r) if f[2] in ("items", "values", "keys") else r
        if is_term(f) and f[0] == "func" and self.prog is not None:
            r = self.prog.inline(t)
            if r is not None and r[0] != "unknown":
                return self.ev(r, env)
        if is_term(f) and f[0] in ("lambda",):
            return self.ev(f, env)(*args)
        raise Unknown(f"call {name or f[0]}")

    def _loop(self, t, env):
        if self.prog is None or t[1] not in self.prog.loops:
            raise Unknown("loop")
        lid = t[1]
        key = ("#loop-state", lid)
        if t[0] in ("carried", "loopvar"):
            st = env.get(key)
            if st is None or t not in st:
                raise Unknown("loop state outside the loop")
            return st[t]
        final = self.run_loop(lid, env, None)
        v = final.get(("carried", lid, t[2]), final.get(("loopvar", lid, t[2]), UNDEF))
        if v is UNDEF:
            raise Unknown(f"{t[2]} undefined after the loop")
        return v

    def run_loop(self, lid, env, each):
        """Execute loop `lid` on concrete values; `each(env_of_iteration)` is called per iteration (may stop by
        returning True).  Returns the final state {('carried', lid, n): value}."""
        lp = self.prog.loops[lid]
        cache = env.setdefault(("#loop-final", lid), {}) if each is None else {}
        if each is None and "state" in cache:
            return cache["state"]
        state = {}
        for n, init in lp.init.items():
            try:
                state[("carried", lid, n)] = self.ev(init, env)
            except Unknown:
                state[("carried", lid, n)] = UNDEF
        items = list(self.ev(lp.iter, env))
        names = sorted(lp.next)
        paths = {n: p for (l2, n), p in self.prog.loopvar_paths.items() if l2 == lid}
        for item in items:
            e2 = dict(env)
            st = dict(state)
            for n, p in paths.items():
                v = item
                for k in p:
                    v = v[k]
                st[("loopvar", lid, n)] = v
            e2[("#loop-state", lid)] = st
            e2.update(st)
            if each is not None and each(e2):
                return state
            new = {}
            for n in names:
                try:
                    new[("carried", lid, n)] = self.ev(lp.next[n], e2)
                except Unknown:
                    new[("carried", lid, n)] = UNDEF
            state.update(new)
            for n, p in paths.items():
                state[("loopvar", lid, n)] = st[("loopvar", lid, n)]
        if each is None:
            cache["state"] = state
        return state


def raises_on(prog, fr, env, funcs=None):
    """Does the function raise for the witness described by `env`?  (True, exception term) / (False, None);
    raises Unknown when a guard cannot be evaluated."""
    ev = Evaluator(prog, funcs)
    for conds, exc, _node in fr.raises:
        loops = [c[1] for c in conds if c[0] == "in-loop"]
        plain = [c for c in conds if c[0] != "in-loop"]
        if not loops:
            if all(ev.truth(c, dict(env)) for c in plain):
                return True, exc
            continue
        hit = [False]
        if len(loops) > 1:
            raise Unknown("raise inside nested loops")

        def each(e2, plain=plain):
            if all(ev.truth(c, e2) for c in plain):
                hit[0] = True
                return True
            return False

        # conditions that do not depend on the loop are checked inside as well (cheap)
        ev.run_loop(loops[0], dict(env), each)
        if hit[0]:
            return True, exc
    return False, None
