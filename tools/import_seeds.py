"""Copy verified seeds from /tmp/seeds into /verif/seeded/<Cxx-a>/ and record what detects them.

usage: import_seeds.py            (reads /tmp/seeds/verify.log; only fully confirmed seeds are kept)
"""
import json
import re
import shutil
import sys
from pathlib import Path

sys.path.insert(0, "/verif")
from lcmsa import registry, selftest  # noqa: E402

LOG = Path("/tmp/seeds/verify.log")
OUT = Path("/verif/seeded")
OUT.mkdir(exist_ok=True)
for line in LOG.read_text().splitlines():
    m = re.match(r"(C\d\d)_([ab]) demo_clean=(\d+) demo_mut=(\d+) failed=(\d+) known=(\d+) :: (.*)", line)
    if not m:
        continue
    pid, ab, clean, mut, failed, known, summary = m.groups()
    ok = clean == "0" and mut != "0" and failed == known and "passed" in summary
    src = Path(f"/tmp/seeds/{pid}/{ab}")
    dst = OUT / f"{pid}-{ab}"
    if not ok:
        print("REJECTED", line)
        continue
    dst.mkdir(exist_ok=True)
    shutil.copy(src / "patch.diff", dst / "patch.diff")
    shutil.copy(src / "demo.py", dst / "demo.py")
    meta = json.loads((src / "meta.json").read_text())
    r = selftest._run_variant(({"id": dst.name, "kind": "patch", "patch": str(dst / "patch.diff")}, sorted(registry.PROPERTIES)))
    meta["property"] = pid
    meta["confirmed"] = {
        "by": "tools/verify_seed.sh in a scratch worktree of /repo HEAD (removed afterwards)",
        "demo_exit_unchanged_tree": int(clean), "demo_exit_with_change": int(mut),
        "existing_tests_with_change": summary + " (the 3 failures are the known environment failures of the unchanged tree)",
    }
    meta["detected_by"] = r.get("fired", [])
    meta["detecting_obligations"] = r.get("keys", [])
    meta["undecided"] = r.get("undecided", [])
    (dst / "meta.json").write_text(json.dumps(meta, indent=1) + "\n")
    print(dst.name, "detected_by", meta["detected_by"], "" if pid in meta["detected_by"] else "<-- NOT by its own property")
