"""Copy verified seeds into /verif/seeded/<Cxx-y>/ and record what detects them.

usage: import_seeds.py <verify.log> <seed root> [suffix map like a=e,b=f]
  verify.log lines come from tools/verify_seed.sh; only fully confirmed seeds are kept (patch applies, demo exits 0
  on the unchanged tree and non-zero with the change, existing tests still pass apart from the 3 environment failures).
"""
import json
import re
import shutil
import sys
from pathlib import Path

sys.path.insert(0, "/verif")
from lcmsa import registry, selftest  # noqa: E402

LOG = Path(sys.argv[1])
ROOT = Path(sys.argv[2])
REN = dict(kv.split("=") for kv in sys.argv[3].split(",")) if len(sys.argv) > 3 else {}
OUT = Path("/verif/seeded")
OUT.mkdir(exist_ok=True)
text = LOG.read_text().replace("\r", "\n")
for line in text.splitlines():
    m = re.search(r"(C\d\d)_([a-z]) demo_clean=(\d+) demo_mut=(\d+) failed=(\d+) known=(\d+) :: (.*)", line)
    if not m:
        continue
    pid, ab, clean, mut, failed, known, summary = m.groups()
    ok = clean == "0" and mut != "0" and failed == known and "passed" in summary
    src = ROOT / pid / ab
    dst = OUT / f"{pid}-{REN.get(ab, ab)}"
    if not ok:
        print("REJECTED", line.strip())
        continue
    dst.mkdir(exist_ok=True)
    shutil.copy(src / "patch.diff", dst / "patch.diff")
    shutil.copy(src / "demo.py", dst / "demo.py")
    meta = json.loads((src / "meta.json").read_text())
    r = selftest._run_variant(({"id": dst.name, "kind": "patch", "patch": str(dst / "patch.diff")}, sorted(registry.PROPERTIES)))  # noqa: SLF001
    meta["property"] = pid
    meta["confirmed"] = {
        "by": "tools/verify_seed.sh in a scratch worktree of /repo HEAD (removed afterwards)",
        "demo_exit_unchanged_tree": int(clean), "demo_exit_with_change": int(mut),
        "existing_tests_with_change": summary.strip() + " (the 3 failures are the known environment failures of the unchanged tree)",
    }
    meta["detected_by"] = r.get("fired", [])
    meta["detecting_obligations"] = r.get("keys", [])
    meta["undecided"] = r.get("undecided", [])
    if not meta["detected_by"]:
        meta["undecided_by"] = sorted({u.split(":")[0] for u in meta["undecided"]})
    (dst / "meta.json").write_text(json.dumps(meta, indent=1) + "\n")
    print(dst.name, "detected_by", meta["detected_by"] or f"UNDECIDED {meta.get('undecided_by')}",
          "" if pid in meta["detected_by"] else "<-- NOT by its own property")
