"""Write MANIFEST.json from lcmsa.registry (run after changing the registry)."""
import json
import sys

sys.path.insert(0, "/verif")
from lcmsa import registry  # noqa: E402

NOT_APPLICABLE = {
    "C09": "check under construction (R7 order taint / R8 effects); see DESIGN.md section 4",
}
PHRASES = [
    ("R2.", "exhaustive boolean-formula algebra over variable classes (pandas query strings located by data flow)"),
    ("R3.", "period-offset abstract domain on per-period lists"),
    ("KER", "normal-form agreement of kernels/wrappers/plumbing with reviewed reference forms (sibling cross-check; two inlining levels; "
            "three-valued verdict: equal = proved, atomic or local deviation measured by shared-subterm edit cost = refuted, "
            "rewritten = undecided)"),
    ("R13.", "polynomial normal form of the Bellman expression and masked reductions"),
    ("R14.SIB", "solver/simulator twin comparison"),
    ("R14.SEGPATH", "must-pass-through rule on the result paths of the segment reducers (every path goes through a segment operation)"),
    ("R15.", "def-use obligations on the simulator loop's value graph"),
    ("R6.", "PRNG-key typestate"),
    ("R5.", "product-layout (repeat/tile/mask) rules"),
    ("R4.", "row-domain taint"),
    ("R7.", "order-provenance (hash/alphabetical) taint"),
    ("R8.", "effect and alias (freshness) analysis with a positive-control fixture"),
    ("R1.", "import/attribute resolution against the installed sources"),
    ("R10.", "call-arity and signature-discipline checks (by-name rebinding at every with_signature site)"),
    ("R11.", "keyword-family algebra over usage classes"),
    ("R17.", "agreement of the index order of the weight function with the axis order of the params template"),
    ("R16.", "who-may-read rule: Parameter.default is never consulted, Parameter.kind only inside lcm.functools (with positive controls)"),
    ("R12.", "guard terms interpreted on finite witness sets (continuous and discrete grids, filter parameters) + partial-operation domain check"),
]


def technique_of(rules):
    parts = [ph for pre, ph in PHRASES if any(r.startswith(pre) for r in rules)]
    return "static analysis on an AST-derived gated-SSA value graph (no execution, no solver): " + "; ".join(parts)
m = {
    "version": 1,
    "setup_cmd": "/venv/bin/python -m compileall -q /verif/lcmsa",
    "hooks": {
        "guard": "LCM_VERIF",
        "enable": "no hooks: the checks are static analyses that read /repo/src/lcm and never run or instrument it",
        "baseline_off_cmd": "cd /repo && /venv/bin/python -m pytest -ra -q -p no:cacheprovider --timeout=900 --continue-on-collection-errors",
        "source_commits": [],
        "add_only": True,
    },
    "engines": [{
        "name": "lcmsa",
        "path": "/verif/lcmsa",
        "serves_properties": sorted(registry.PROPERTIES),
        "kind_free_text": "repository-specific static analyser (pure Python, stdlib ast): value-graph (term) builder with "
                          "reaching definitions, query-formula algebra over variable classes, period-offset domain, "
                          "polynomial/operation normal forms, agreement with reviewed reference forms",
    }],
    "checks": [],
    "not_applicable": [],
    "notes": "All checks are static: nothing under /repo is imported or executed. Exit 0 = all obligations proved "
             "(KNOWN-FINDING lines for recorded defects), 1 = VIOLATION, 2 = ANALYSIS-UNDECIDED/ERROR.",
}
for pid in sorted(registry.PROPERTIES):
    spec = registry.PROPERTIES[pid]
    rules = sorted({r.rule_name for r in spec["rules"]})
    m["checks"].append({
        "property_id": pid,
        "quick_cmd": f"./check {pid} --tier quick",
        "thorough_cmd": f"./check {pid} --tier thorough",
        "evidence_file": f"/verif/evidence/{pid}.json",
        "replay_cmd_template": f"./check {pid} --replay {{path}}",
        "engine": "lcmsa",
        "level_claimed": {
            "category": "other",
            "text": "Static decision of structural clauses that are necessary conditions of the property, for all "
                    "inputs at once (the abstract domains quantify over variable classes, period offsets, model-shape "
                    "configurations; values are never computed). " + spec["explanation"],
            "design_ref": f"DESIGN.md section 4 ({pid}) and section 3 ({', '.join(rules)})",
        },
        "level_note": "Trusted: CPython ast; summaries of jax/dags/pandas semantics; the analyser's term builder and "
                      "normaliser; reference forms reviewed by hand. Decides code structure, not numerical results; "
                      "clauses not decided are listed in DESIGN.md section 4.",
        "technique": spec.get("technique", technique_of(rules)),
    })
for pid, why in NOT_APPLICABLE.items():
    if pid not in registry.PROPERTIES:
        m["not_applicable"].append({"property_id": pid, "reason": why})
json.dump(m, open("/verif/MANIFEST.json", "w"), indent=1)
print("checks:", len(m["checks"]), "n/a:", len(m["not_applicable"]))
