"""Run every property's check on ONE generated mutant and show all non-proved obligations.

usage: one_mutant.py <file relative to src/lcm> <line> <operator> [key substring]   (development aid)
"""
import shutil
import sys
from pathlib import Path

sys.path.insert(0, "/verif")
from lcmsa import mutgen, registry, selftest  # noqa: E402
from lcmsa.__main__ import run_property  # noqa: E402
from lcmsa.core import Program  # noqa: E402
from lcmsa.report import load_known  # noqa: E402


def main():
    rel, line, kind = sys.argv[1], sys.argv[2], sys.argv[3]
    pat = sys.argv[4] if len(sys.argv) > 4 else ""
    src = (Path("/repo/src/lcm") / rel).read_text()
    hits = [(d, m) for d, m in mutgen.generate(rel, src) if d.split()[0] == f"{rel}:{line}" and d.split()[2].startswith(kind)]
    if not hits:
        print("no such mutant")
        return 2
    for desc, mutated in hits:
        print("##", desc)
        root = selftest._scratch_root()  # noqa: SLF001
        try:
            selftest._copy_tree(root)  # noqa: SLF001
            (root / "src" / "lcm" / rel).write_text(mutated)
            prog = Program(root)
            cache: dict = {}
            seen = set()
            for prop in sorted(registry.PROPERTIES):
                _st, res, _ = run_property(prop, "quick", 0, prog, cache, quiet=True, write=False)
                known = {k.key for k in load_known() if k.prop == prop}
                for o in res.obs:
                    if (o.status != "PROVED" and o.key not in known) or (pat and pat in o.key):
                        if (o.key, o.status) not in seen:
                            seen.add((o.key, o.status))
                            print(f"  {prop} {o.status} {o.key} | {o.detail[:300]}")
        finally:
            shutil.rmtree(root, ignore_errors=True)
    return 0


if __name__ == "__main__":
    sys.exit(main())
