"""Bring the expectations recorded in seeded/*/meta.json and refactors/*/meta.json in line with a self-test table
(LCMSA_SELFTEST_TABLE=<file> python -m lcmsa.selftest).  Only ever tightens:
  * a refactoring that is fully silent loses its `allow_undecided` flag;
  * a seed recorded as UNDECIDED that is now REFUTED gets `detected_by`.
Anything that got worse is printed and left alone (it has to be looked at).

usage: refresh_meta.py <table.json>
"""
import json
import sys
from pathlib import Path

V = Path("/verif")
rows = json.loads(Path(sys.argv[1]).read_text())
for r in rows:
    rid = r["id"]
    if rid.startswith("refactor-"):
        p = V / "refactors" / rid.removeprefix("refactor-") / "meta.json"
        if not p.exists():
            continue
        m = json.loads(p.read_text())
        if r.get("fired"):
            print("WORSE (false REFUTED):", rid, r["fired"])
        elif r.get("undecided") and not m.get("allow_undecided"):
            print("WORSE (new UNDECIDED):", rid, r["undecided"][:2])
        elif not r.get("undecided") and m.get("allow_undecided"):
            m.pop("allow_undecided", None)
            m.pop("undecided_reason", None)
            p.write_text(json.dumps(m, indent=1) + "\n")
            print("tightened: now fully silent:", rid)
    elif rid.startswith("seed-"):
        p = V / "seeded" / rid.removeprefix("seed-") / "meta.json"
        if not p.exists():
            continue
        m = json.loads(p.read_text())
        own = m["property"]
        if not m.get("detected_by") and r.get("fired"):
            m["detected_by"] = r["fired"]
            m["detecting_obligations"] = r.get("keys") or []
            m.pop("undecided_by", None)
            p.write_text(json.dumps(m, indent=1) + "\n")
            print("tightened: now REFUTED:", rid, r["fired"])
        elif m.get("detected_by") and not r.get("fired"):
            print("WORSE (no longer REFUTED):", rid, r.get("undecided"))
        elif own not in (r.get("not_passing") or []):
            print("WORSE (own property passes):", rid)
