"""Run the checks of the given properties (default: all) on a scratch copy of /repo with a patch applied.

usage: try_patch.py <patch.diff> [C01 C02 ...]      (development aid; nothing registered uses it)
"""
import sys

sys.path.insert(0, "/verif")
from lcmsa import registry, selftest  # noqa: E402


def main():
    patch = sys.argv[1]
    props = sys.argv[2:] or sorted(registry.PROPERTIES)
    r = selftest._run_variant(({"id": patch, "kind": "patch", "patch": patch}, props))
    if r["outcome"] != "ran":
        print(r)
        return 2
    # full lists (not truncated): rerun to print everything would be wasteful, so report what we have
    print("fired:", r["fired"])
    for k in r["keys"]:
        print("  REFUTED", k)
    for k in r["undecided"]:
        print("  UNDECIDED", k)
    return 1 if r["fired"] else (2 if r["undecided"] else 0)


if __name__ == "__main__":
    sys.exit(main())
