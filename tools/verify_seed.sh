#!/bin/bash
# usage: verify_seed.sh <seed dir with patch.diff demo.py meta.json> ; prints one summary line
# Confirms: patch applies to /repo HEAD (in a scratch worktree), demo exits 0 without / !=0 with the
# change, existing test suite still passes with the change (only the 3 known env failures).
d=$1
name=$(basename $(dirname $d))_$(basename $d)
wt=/tmp/wt/verify_$name
git -C /repo worktree add -q --detach $wt HEAD || exit 2
cd $wt
PYTHONPATH=$wt/src timeout 900 /venv/bin/python $d/demo.py >/tmp/seeds/$name.clean.log 2>&1; clean=$?
if ! git apply $d/patch.diff 2>/tmp/seeds/$name.apply.log; then echo "$name APPLY-FAILED"; git -C /repo worktree remove --force $wt; exit 1; fi
PYTHONPATH=$wt/src timeout 900 /venv/bin/python $d/demo.py >/tmp/seeds/$name.mut.log 2>&1; mut=$?
PYTHONPATH=$wt/src timeout 1800 /venv/bin/python -m pytest -q -p no:cacheprovider -n 8 --timeout=900 tests 2>&1 | tail -6 > /tmp/seeds/$name.tests.log
failed=$(grep -c "^FAILED" /tmp/seeds/$name.tests.log)
known=$(grep -E "^FAILED" /tmp/seeds/$name.tests.log | grep -c -E "test_get_label_translator_wrong_kwarg|test_regression_test|test_stochastic.py::test_get_lcm_function_with_simulate_target")
summary=$(tail -1 /tmp/seeds/$name.tests.log)
echo "$name demo_clean=$clean demo_mut=$mut failed=$failed known=$known :: $summary"
cd /; git -C /repo worktree remove --force $wt
