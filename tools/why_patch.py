"""Print the full text of every REFUTED / UNDECIDED obligation of the given properties on a scratch copy of /repo
with a patch applied (development aid; /repo itself is not touched).

usage: why_patch.py <patch.diff> C01 [C02 ...]
"""
import shutil
import sys

sys.path.insert(0, "/verif")
from lcmsa import selftest  # noqa: E402
from lcmsa.__main__ import run_property  # noqa: E402
from lcmsa.core import Program  # noqa: E402
from lcmsa.report import REFUTED, UNDECIDED  # noqa: E402


def main():
    patch, props = sys.argv[1], sys.argv[2:]
    root = selftest._scratch_root()
    try:
        selftest._copy_tree(root)
        why = selftest._apply_variant(root, {"id": patch, "kind": "patch", "patch": patch})
        if why is not None:
            print("cannot apply:", why)
            return 2
        prog = Program(root)
        cache: dict = {}
        for p in props:
            _st, res, _ = run_property(p, "quick", 0, prog, cache, quiet=True, write=False)
            for o in res.obs:
                if o.status in (REFUTED, UNDECIDED):
                    print(f"{o.status} {p}:{o.key} [{o.where}]\n    {o.detail[:1500]}\n    lhs: {o.lhs[:300]}\n    rhs: {o.rhs[:300]}")
    finally:
        shutil.rmtree(root, ignore_errors=True)
    return 0


if __name__ == "__main__":
    sys.exit(main())
